#!/usr/bin/env python3
"""Third, independent implementation of the documented OPinit commitment
formats (python hashlib).  Run once; vectors.json is committed and pins the Go
prover in /verif/sim/prover at start-up of every check."""
import hashlib, json, struct, random

def sha3(b): return hashlib.sha3_256(b).digest()
def be64(x): return struct.pack(">Q", x)

def leaf(bridge, seq, sender, receiver, denom, amount):
    pre = be64(bridge) + be64(seq) + sha3(sender.encode()) + sha3(receiver.encode()) + sha3(denom.encode()) + be64(amount)
    assert len(pre) == 120
    return sha3(sha3(pre))

def node(a, b):
    return sha3(a + b) if a < b else sha3(b + a)

def output_root(version, storage_root, block_hash):
    return sha3(bytes([version]) + storage_root + block_hash)

def l2denom(bridge, l1denom):
    return "l2/" + sha3(be64(bridge) + l1denom.encode()).hex()

def escrow(bridge):
    # ADR-028 module derived address: sha256(sha256("module") || "ophost" || 0x00 || be64(id))
    return hashlib.sha256(hashlib.sha256(b"module").digest() + b"ophost\x00" + be64(bridge)).digest()

rnd = random.Random(20261001)
def rstr(n): return "".join(rnd.choice("abcdefghijklmnopqrstuvwxyz0123456789/") for _ in range(n))
vec = {"leaf": [], "node": [], "output_root": [], "l2denom": [], "escrow": []}
for i in range(40):
    b = rnd.choice([1, 2, 3, 2**32, 2**64 - 1, rnd.getrandbits(64)])
    s = rnd.choice([1, 2, 2**63, 2**64 - 1, rnd.getrandbits(64)])
    snd, rcv, dn = rstr(rnd.randint(1, 70)), rstr(rnd.randint(1, 70)), rnd.choice(["uinit", "uusdc", "ibc/" + rstr(20), "l2/" + rstr(64)])
    if i == 0: snd = "é中"  # non-ASCII
    a = rnd.choice([1, 1000000, 2**63 - 1, 2**63, 2**64 - 1, rnd.getrandbits(64)])
    vec["leaf"].append({"bridge": str(b), "seq": str(s), "sender": snd, "receiver": rcv, "denom": dn, "amount": str(a), "hash": leaf(b, s, snd, rcv, dn, a).hex()})
for i in range(20):
    a, b = rnd.randbytes(32), rnd.randbytes(32)
    if i == 0: b = a
    if i == 1: b = a[:-1] + bytes([(a[-1] + 1) % 256])
    vec["node"].append({"a": a.hex(), "b": b.hex(), "hash": node(a, b).hex()})
    assert node(a, b) == node(b, a)
for i in range(10):
    v, sr, bh = rnd.choice([0, 1, 255]), rnd.randbytes(32), rnd.randbytes(32)
    vec["output_root"].append({"version": v, "storage_root": sr.hex(), "block_hash": bh.hex(), "hash": output_root(v, sr, bh).hex()})
for i in range(10):
    b = rnd.choice([1, 2, 2**64 - 1, rnd.getrandbits(64)]); d = rnd.choice(["uinit", "uusdc", "ibc/" + rstr(10)])
    vec["l2denom"].append({"bridge": str(b), "denom": d, "l2denom": l2denom(b, d)})
for b in [1, 2, 3, 255, 256, 2**32, 2**64 - 1]:
    vec["escrow"].append({"bridge": str(b), "addr": escrow(b).hex()})
json.dump(vec, open("vectors.json", "w"), indent=1)
print("ok", {k: len(v) for k, v in vec.items()})
