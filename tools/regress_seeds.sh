#!/bin/bash
# Re-runs every kept seeded change against the current checks: applies seeded/<id>/patch.diff to /repo, runs the quick
# tier of each property listed in meta.json detected_by, reverts /repo.  Prints one line per seed; "REGRESSION" if a
# check that used to catch the change no longer does.
cd "$(dirname "$0")/.."
only="$1"
# SEED_REPO: where the patch is applied (default /repo); any other git worktree of /repo is used through OPSIM_REPO
R=${SEED_REPO:-/repo}
X=""; [ "$R" != "/repo" ] && X="OPSIM_REPO=$R"
for d in seeded/*/; do
  id=$(basename $d)
  [ -n "$only" ] && [[ "$id" != $only* ]] && continue
  [ -n "$ONLY_RE" ] && ! [[ "$id" =~ $ONLY_RE ]] && continue
  [ -n "$SKIP_UNTIL" ] && [[ "$id" < "$SKIP_UNTIL" ]] && continue
  props=$(python3 -c "import json;m=json.load(open('$d/meta.json'));print('' if m.get('superseded_by') else ' '.join(m['detected_by']))")
  [ -z "$props" ] && { echo "$id superseded-by-a-later-fix"; continue; }
  git -C $R apply "$(pwd)/$d/patch.diff" 2>/dev/null || { echo "$id PATCH-DOES-NOT-APPLY"; git -C $R checkout -- . ; continue; }
  line="$id"
  for p in $props; do
    out=$(env $X OPSIM_NOMIN=1 OPSIM_EVIDENCE_DIR=/tmp/seedeval-evidence ./check $p quick 2>&1); rc=$?
    if [ $rc -eq 1 ]; then line="$line $p:caught"; elif [ $rc -eq 0 ]; then line="$line $p:REGRESSION"; else line="$line $p:exit$rc"; fi
  done
  git -C $R checkout -- .
  echo "$line"
done
