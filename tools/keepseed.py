#!/usr/bin/env python3
"""tools/keepseed.py <candidate-dir> <seed-id> <detected_by comma list> [missed_by comma list] -- files a confirmed seeded change under /verif/seeded/<seed-id>/"""
import json, os, shutil, subprocess, sys
cand, sid, det = sys.argv[1], sys.argv[2], [x for x in sys.argv[3].split(",") if x]
missed = [x for x in (sys.argv[4].split(",") if len(sys.argv) > 4 else []) if x]
dst = f"/verif/seeded/{sid}"
os.makedirs(dst, exist_ok=True)
shutil.copy(f"{cand}/patch.diff", f"{dst}/patch.diff")
shutil.copy(f"{cand}/demo_test.go", f"{dst}/demo_test.go")
m = json.load(open(f"{cand}/meta.json"))
m["confirmed"] = {"how": "tools/seedeval.sh in a scratch git worktree of /repo HEAD: patch applies, go build ./... ok, full ./x/... ./contrib/... suite passes with the change, demo test fails with the change and passes without it",
                  "detection_run": "patch applied to /repo, ./check <prop> quick, /repo reverted"}
m["detected_by"] = det
head = subprocess.check_output(["git", "-C", os.environ.get("REPO_CHECK", "/repo"), "rev-parse", "--short", "HEAD"]).decode().strip()
if subprocess.run(["git", "-C", os.environ.get("REPO_CHECK", "/repo"), "apply", "--check", f"{cand}/patch.diff"], capture_output=True).returncode == 0:
    m["applies_to_repo_commits"] = [head]
m["missed_by"] = missed
json.dump(m, open(f"{dst}/meta.json", "w"), indent=1)
print("kept", dst)
