#!/bin/bash
# development aid: all quick checks against a scratch worktree of /repo (default /tmp/repo-clean), evidence kept out of evidence/;
# prints one line per property with exit code, runs, aborted runs and the violation if any
R=${1:-/tmp/repo-clean}
cd "$(dirname "$0")/.."
for p in $(python3 -c "import json;print(' '.join(c['property_id'] for c in json.load(open('MANIFEST.json'))['checks']))"); do
  out=$(OPSIM_NOMIN=1 OPSIM_REPO=$R OPSIM_EVIDENCE_DIR=/tmp/dev-evidence ./check $p quick 2>&1); rc=$?
  echo "$p exit=$rc $(echo "$out" | grep -o 'runs=[0-9]* nontrivial=[0-9]* distinct_nontrivial=[0-9]* aborted=[0-9]*') $(echo "$out" | grep -m1 '^violation' | cut -c1-200)"
done
