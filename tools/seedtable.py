#!/usr/bin/env python3
"""Regenerates the seeded-change table of DESIGN.md (between the markers) from seeded/*/meta.json."""
import json, glob, re
rows = []
for f in sorted(glob.glob('/verif/seeded/*/meta.json'), key=lambda p: (re.search(r'(C\d+)', p).group(1), p)):
    m = json.load(open(f)); sid = f.split('/')[-2]
    def cut(s, n):
        s = ' '.join(str(s).split()).replace('|', '/')
        return s if len(s) <= n else s[:n-1] + '…'
    rows.append(f"| {sid} | {cut(m.get('summary',''), 150)} | {cut(m.get('needs',''), 130)} | {', '.join(m.get('detected_by', [])) or '—'} | {', '.join(m.get('missed_by', [])) or '—'} |")
table = "| seed | what the change does | what it needs to manifest | caught by | missed by (own property) |\n|---|---|---|---|---|\n" + "\n".join(rows)
s = open('/verif/DESIGN.md').read()
a, b = '<!-- SEEDTABLE:BEGIN -->', '<!-- SEEDTABLE:END -->'
if a in s:
    s = s[:s.index(a) + len(a)] + "\n" + table + "\n" + s[s.index(b):]
    open('/verif/DESIGN.md', 'w').write(s)
print(len(rows), "rows")
