#!/bin/bash
# background sweep: thorough tier of every check over several seeds against a snapshot of the repository
# usage (via vp run --with-repo): tools/sweep.sh <tier> <seed>...
tier=${1:-thorough}; shift
export OPSIM_REPO=${VP_RUN_REPO:-/repo}
for seed in "$@"; do
  for p in $(python3 -c "import json;print(' '.join(c['property_id'] for c in json.load(open('MANIFEST.json'))['checks']))"); do
    s=$(date +%s); out=$(VERIF_SEED=$seed ./check $p $tier 2>&1); rc=$?; e=$(date +%s)
    echo "seed=$seed $p exit=$rc $((e-s))s $(echo "$out" | grep -E '^(VIOLATION|violation|runs=)' | cut -c1-300 | tr '\n' '|')"
  done
done
