#!/bin/bash
# background sweep: thorough tier of every check over several seeds against a snapshot of the repository
# usage (via vp run --with-repo): [PROPS="C01 C08"] tools/sweep.sh <tier> <seed>...
tier=${1:-thorough}; shift
export OPSIM_REPO=${VP_RUN_REPO:-/repo}
for seed in "$@"; do
  for p in ${PROPS:-$(python3 -c "import json;print(' '.join(c['property_id'] for c in json.load(open('MANIFEST.json'))['checks']))")}; do
    s=$(date +%s); out=$(VERIF_SEED=$seed ./check $p $tier 2>&1); rc=$?; e=$(date +%s)
    # keep replay files: the snapshot this runs in is removed when the run is stopped
    if [ $rc -ne 0 ]; then mkdir -p /tmp/sweep-replays; for f in $(echo "$out" | grep -o 'replay=[^ ]*' | cut -d= -f2); do cp "$f" "${f%.json}.full.json" /tmp/sweep-replays/ 2>/dev/null; done; echo "$out" | tail -40 > /tmp/sweep-replays/$p-seed$seed.out; fi
    echo "seed=$seed $p exit=$rc $((e-s))s $(echo "$out" | grep -E '^(VIOLATION|violation|runs=)' | cut -c1-300 | tr '\n' '|')"
  done
done
