package main

import (
	"fmt"
	"go/ast"
	"go/types"
	"os"
	"strings"

	"golang.org/x/tools/go/packages"
)

func main() {
	cfg := &packages.Config{Mode: packages.NeedTypes | packages.NeedSyntax | packages.NeedTypesInfo | packages.NeedName | packages.NeedFiles, Dir: os.Args[1], BuildFlags: []string{"-tags", "verif"}}
	pkgs, err := packages.Load(cfg, os.Args[2:]...)
	if err != nil {
		panic(err)
	}
	for _, p := range pkgs {
		for _, e := range p.Errors {
			fmt.Println("ERR", e)
		}
		for _, f := range p.Syntax {
			ast.Inspect(f, func(n ast.Node) bool {
				rs, ok := n.(*ast.RangeStmt)
				if !ok {
					return true
				}
				t := p.TypesInfo.TypeOf(rs.X)
				if t == nil {
					return true
				}
				if _, ok := t.Underlying().(*types.Map); !ok {
					return true
				}
				// does the body draw from the PRNG or log or append?
				var hits []string
				ast.Inspect(rs.Body, func(m ast.Node) bool {
					ce, ok := m.(*ast.CallExpr)
					if !ok {
						return true
					}
					if se, ok := ce.Fun.(*ast.SelectorExpr); ok {
						name := se.Sel.Name
						switch name {
						case "Intn", "Chance", "Weighted", "Uint64n", "Uint64", "Fault", "Probe", "Step", "Logf", "Int63n", "Pick", "Bytes":
							hits = append(hits, name)
						}
					}
					if id, ok := ce.Fun.(*ast.Ident); ok && id.Name == "append" {
						hits = append(hits, "append")
					}
					return true
				})
				if len(hits) > 0 {
					pos := p.Fset.Position(rs.Pos())
					fmt.Printf("%s:%d range over %s: %s\n", strings.TrimPrefix(pos.Filename, os.Args[1]+"/"), pos.Line, t, strings.Join(hits, ","))
				}
				return true
			})
		}
	}
}
