#!/bin/bash
# tools/seedeval.sh <candidate-dir> "<props to run>"   e.g. tools/seedeval.sh /tmp/mut/C02/OUT/1 "C02 C01"
# 1. confirms the candidate in a scratch worktree (applies, builds, full suite passes, demo fails with / passes without)
# 2. applies it to /repo, runs the listed checks (quick tier), prints which ones report a VIOLATION, and reverts /repo
set -u
cand="$1"; props="$2"; mode="${3:-both}"
export GOPROXY=off GOSUMDB=off GOTOOLCHAIN=local
meta="$cand/meta.json"
demo_path=$(python3 -c "import json,sys;print(json.load(open('$meta'))['demo_path'])")
if [ "$mode" != "detect" ]; then
  wt=$(mktemp -d /tmp/sv-XXXXXX); rmdir $wt
  git -C /repo worktree add -q --detach $wt HEAD || exit 2
  ( cd $wt
    git apply "$cand/patch.diff" || { echo "CONFIRM: patch does not apply"; exit 3; }
    GOFLAGS= go build ./... || { echo "CONFIRM: build fails"; exit 3; }
    if GOFLAGS= go test -vet=off -count=1 ./x/... ./contrib/... >/tmp/sv-suite.log 2>&1; then echo "CONFIRM: suite passes with change"; else echo "CONFIRM: SUITE FAILS with change"; tail -5 /tmp/sv-suite.log; fi
    cp "$cand/demo_test.go" "$demo_path"
    pkg=./$(dirname "$demo_path")
    if GOFLAGS= go test -vet=off -count=1 $pkg >/tmp/sv-demo1.log 2>&1; then echo "CONFIRM: DEMO PASSES with change (bad)"; else echo "CONFIRM: demo fails with change"; fi
    git apply -R "$cand/patch.diff"
    if GOFLAGS= go test -vet=off -count=1 $pkg >/tmp/sv-demo2.log 2>&1; then echo "CONFIRM: demo passes without change"; else echo "CONFIRM: DEMO FAILS without change (bad)"; tail -5 /tmp/sv-demo2.log; fi
  )
  git -C /repo worktree remove --force $wt
fi
if [ "$mode" != "confirm" ]; then
  git -C /repo apply "$cand/patch.diff" || { echo "DETECT: patch does not apply to /repo"; exit 3; }
  for p in $props; do
    out=$(cd ${VERIF_DIR:-/verif} && OPSIM_EVIDENCE_DIR=/tmp/seedeval-evidence ./check $p quick 2>&1); rc=$?
    v=$(echo "$out" | grep -m1 "^violation:" | cut -c1-300)
    echo "DETECT $p: exit=$rc $v"
  done
  git -C /repo checkout -- .
  git -C /repo status --short | head -3
fi
