#!/bin/bash
# runs every claimed check's quick tier on the current tree (regenerates evidence/*.json); prints one line per property
cd /verif
for p in $(python3 -c "import json;print(' '.join(c['property_id'] for c in json.load(open('MANIFEST.json'))['checks']))"); do
  s=$(date +%s); out=$(./check $p ${1:-quick} 2>&1); rc=$?; e=$(date +%s)
  echo "$p exit=$rc $((e-s))s $(echo "$out" | grep -E '^(VIOLATION|KNOWN-FINDING)' | cut -c1-160 | tr '\n' '|')"
done
