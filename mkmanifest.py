#!/usr/bin/env python3
"""Regenerates MANIFEST.json from the table below (kept as a script so the file is always schema-valid)."""
import json, subprocess
CLAIMED = {
 "C01": ("exploration", "6.1", "seeded simulation of multi-bridge L1 histories with crash/restart, dependency faults on the bank and community-pool seams and out-of-gas aborts; the bank's complete balance table and every bridge's exported state are compared with an independent ledger model after every block", "lock-step ledger model over real BaseApp + seeded fault injection"),
 "C02": ("exploration", "6.2", "seeded simulation of claim re-submission schedules over propose/delete/re-propose histories with cumulative trees and crash between FinalizeBlock and Commit; at most one successful finalisation per withdrawal, Claimed query exact", "seeded schedule search with at-most-once oracle"),
 "C03": ("exploration", "6.3", "Byzantine claimant: 20 perturbation operators applied to valid claims in all oracle states, admissibility decided by an independent verifier pinned to python-generated vectors", "seeded Byzantine input/fault simulation vs independent verifier"),
 "C05": ("exploration", "6.5", "clock-centric simulation with boundary-targeting block times; finality oracle stated in real time with a 1 s ambiguity band, irreversibility and agreement of all observations checked", "discrete-event simulation with controlled clock"),
 "C10": ("exploration", "6.10", "seeded histories of bridge creation and deposits over existing and non-existent ids with crash/restart; sequence, event, token-pair and ledger model compared after every block", "lock-step reference model over real BaseApp"),
 "C11": ("exploration", "6.11", "seeded propose/delete/re-propose histories; model log vs paginated queries, exported state and structural invariants after every block", "lock-step reference model over real BaseApp"),
 "C19": ("exploration", "6.19", "histories of create/update-metadata/update-challenger with grammar-generated metadata, channel states and injected perm-keeper faults; admin table model compared after every block", "seeded simulation with dependency-fault injection"),
 "C06": ("exploration", "6.6", "seeded relay schedules (duplicates, stale replays, gaps, reordering, batches, racing executors, an outsider) over a deposit stream with crash between FinalizeBlock and Commit; exactly-once in-order oracle on results, events, sequences, ledger and supply", "seeded schedule search over message delivery with lock-step model"),
 "C09": ("exploration", "6.9", "seeded histories of credited / refunded deposits, transfers and withdrawal attempts with crash/restart and dependency faults on burn/send; supply conservation, exact debit, shared gap-free L2 sequence, immutable denom mapping checked after every block", "lock-step reference model over real BaseApp + fault injection"),
 "C13": ("exploration", "6.13", "seeded validator-set histories whose every end-block batch is applied to the real CometBFT ValidatorSet, with crash between FinalizeBlock and Commit; engine set = state = last powers, index bijection, cap, purge and historical-info retention checked after every block", "seeded simulation with real CometBFT validator-set code as the engine stub"),
 "C14": ("exploration", "6.14", "executor-change plans (fresh / reused operator, fresh / reused key, malformed) registered around other validator operations with node restarts in between; at the plan height the engine set, state and executor list must be exactly the plan's and block processing must not fail", "seeded simulation with restart faults and engine stub"),
 "C07": ("fault_enumeration", "6.7", "for each generated deposit (recipient x amount x payload classes) the handler is executed fault-free while its calls through the bank / account-keeper seams and the hook-target message server are recorded, then re-executed from the same state once per (call index x {error, panic}); contained-region faults must still yield SUCCESS with a complete credit or a complete refund, other faults must abort atomically and be retryable, the next sequence must always be processable, hook gas is bounded by the allowance", "systematic fault enumeration at every recorded dependency call over seeded inputs"),
 "C12": ("exploration", "6.12", "every permissioned message of both modules sent by current / past role holders, authorities and strangers across role rotations, executor-list and parameter changes, MsgExecuteMessages batches and bridge-info re-pointing attempts; access-table oracle for soundness and completeness, atomic rejection", "lock-step access-table model over real BaseApp nodes (L1 and L2)"),
 "C04": ("exploration", "6.4", "two-chain simulation with a faithful executor whose trees are built only from L2 withdrawal events by the independent prover: amounts up to and beyond 64 bits, several denoms, upper-case recipients, trees of 1-33 leaves, refunds of failed deposits, withdrawals performed inside hooks, challenger deletions; every recorded claimable withdrawal must be finalised exactly once within the drain budget", "whole-bridge deterministic simulation with bounded-liveness drain"),
 "C08": ("exploration", "6.8", "whole-bridge simulation (real L1 + L2 nodes, users, racing executors, proposer, challenger, claimers) over a lossy / duplicating / delaying / reordering / partitioning network with crash-restart of either node; the peg equation is evaluated from parsed events and public queries after every block of either chain, then a fault-free drain must pay every claim exactly once and restore escrow = supply and combined holdings", "whole-bridge deterministic simulation with network + crash fault injection and cross-chain conservation oracle"),
 "C15": ("exploration", "6.15", "a simulated L1 validator set signs real vote extensions; a Byzantine relayer assembles extended commits (dropped / duplicated / forged / mis-bound / replayed votes, unknown validators, stale timestamps and heights) and an IBC relayer refreshes the recorded set (higher / equal / lower heights, foreign and unset client ids); an independent recount decides which price changes are admissible", "seeded Byzantine-input simulation against an independent quorum recount"),
}
PENDING = {}
NA = {"C17": "pure functions of their byte inputs (hash/derivation formats, no aliasing): no schedule, clock, fault, crash point or history to simulate; deciding it is differential input testing, not deterministic simulation (DESIGN 6.17). Format agreement on system-reachable inputs is observed as a by-product by C03/C04/C08 through the independent prover."}
props = [json.loads(l)["id"] for l in open("properties.jsonl")]
checks = []
for pid in props:
    if pid in CLAIMED:
        lvl, ref, text, tech = CLAIMED[pid]
        checks.append({"property_id": pid, "quick_cmd": f"./check {pid} quick", "thorough_cmd": f"./check {pid} thorough",
            "evidence_file": f"/verif/evidence/{pid}.json", "replay_cmd_template": "./check replay {path}", "engine": "opsim",
            "level_claimed": {"category": lvl, "text": text + ". Sampling, not proof: a clean batch is evidence for the sampled schedules only.", "design_ref": "DESIGN.md " + ref},
            "level_note": "trusted: Cosmos SDK baseapp/bank/auth, IAVL, the simulator itself and its reference models; stubs: consensus engine (single proposer), outer-tx signature verification (signer = declared signer field), IBC/community-pool keepers",
            "technique": "deterministic simulation with fault injection: " + tech})
na = [{"property_id": k, "reason": v} for k, v in NA.items()]
for pid in props:
    if pid not in CLAIMED and pid not in NA:
        na.append({"property_id": pid, "reason": "check not built yet in this session (planned in DESIGN.md section 6); not claimed until it exists"})
m = {"version": 1,
 "setup_cmd": "./check build && ./selftest.sh 6 1",
 "hooks": {"guard": "verif", "enable": "go build -tags verif (no hook is needed: every seam is an existing interface; the tag is reserved)", "baseline_off_cmd": "cd /repo && GOFLAGS= go test -vet=off -count=1 ./...", "source_commits": [], "add_only": True},
 "engines": [{"name": "opsim", "path": "/verif/sim", "serves_properties": sorted(CLAIMED), "kind_free_text": "seeded deterministic simulator: real BaseApp nodes for L1/L2, simulated clock/network/actors, fault injection, lock-step reference models, choice-stream replay and minimisation"}],
 "checks": checks, "not_applicable": na,
 "notes": "All checks rebuild bin/opsim from /repo's working tree (go module replace => /repo). Exit 2 = harness/build trouble, never a VIOLATION."}
json.dump(m, open("MANIFEST.json", "w"), indent=1)
print("claimed", len(checks), "not_applicable", len(na))
