package scen

import (
	"bytes"
	"fmt"
	"sort"

	sdk "github.com/cosmos/cosmos-sdk/types"
	"github.com/cosmos/cosmos-sdk/types/query"

	ophostkeeper "github.com/initia-labs/OPinit/x/ophost/keeper"
	ophosttypes "github.com/initia-labs/OPinit/x/ophost/types"

	"opsim/core"
	"opsim/prover"
)

var (
	ownCfgRoles = []string{"C12", "C01", "C16"}
	ownOutState = []string{"C11", "C05", "C01", "C16"}
	ownSeqState = []string{"C10", "C01", "C16"}
	ownClaimSt  = []string{"C02", "C01", "C16"}
)

// compareBridge checks one bridge's exported state and every public query
// about it against the model.
func (w *l1World) compareBridge(ctx sdk.Context, q ophostkeeper.Querier, b *mBridge, eb *ophosttypes.Bridge, bc blockCtx) *core.Violation {
	id := b.ID
	bad := func(inv, key string, owners []string, format string, a ...interface{}) *core.Violation {
		return w.fail(mismatch{inv, key, owners, fmt.Sprintf("bridge %d: ", id) + fmt.Sprintf(format, a...)})
	}
	// config
	c, mc := eb.BridgeConfig, b.Cfg
	if c.Proposer != mc.Proposer || c.Challenger != mc.Challenger {
		return bad("state.roles", "roles", ownCfgRoles, "roles on chain (%s,%s) differ from model (%s,%s)", c.Proposer, c.Challenger, mc.Proposer, mc.Challenger)
	}
	if c.FinalizationPeriod != mc.FinalizationPeriod {
		return bad("state.period-changed", "finalization-period-changed", []string{"C05", "C01"}, "finalization period %s, created with %s", c.FinalizationPeriod, mc.FinalizationPeriod)
	}
	if c.FinalizationPeriod <= 0 {
		key := "zero-finalization-period"
		if c.FinalizationPeriod < 0 {
			key = "negative-finalization-period"
		}
		return bad("create.nonpositive-period", key, []string{"C05"}, "accepted bridge has non-positive finalization period %s", c.FinalizationPeriod)
	}
	if c.SubmissionInterval != mc.SubmissionInterval || c.SubmissionStartHeight != mc.SubmissionStartHeight || c.OracleEnabled != mc.OracleEnabled ||
		!bytes.Equal(c.Metadata, mc.Metadata) || c.BatchInfo != mc.BatchInfo {
		return bad("state.config", "config", []string{"C12", "C01", "C16", "C19"}, "bridge config differs from model: %+v vs %+v", c, mc)
	}
	br, err := q.Bridge(ctx, &ophosttypes.QueryBridgeRequest{BridgeId: id})
	if err != nil || br.BridgeConfig.Proposer != mc.Proposer || br.BridgeConfig.Challenger != mc.Challenger || br.BridgeAddr != sdk.AccAddress(prover.Escrow(id)).String() {
		return bad("query.bridge", "bridge-query", []string{"C12", "C01", "C10"}, "Bridge query disagrees with model (err=%v)", err)
	}
	// sequences
	if eb.NextL1Sequence != b.NextL1Seq {
		return bad("state.next-l1-sequence", "next-l1-sequence", ownSeqState, "next L1 sequence %d, model %d", eb.NextL1Sequence, b.NextL1Seq)
	}
	if res, err := q.NextL1Sequence(ctx, &ophosttypes.QueryNextL1SequenceRequest{BridgeId: id}); err != nil || res.NextL1Sequence != b.NextL1Seq {
		return bad("query.next-l1-sequence", "next-l1-sequence", ownSeqState, "NextL1Sequence query %v, model %d", res, b.NextL1Seq)
	}
	// token pairs
	if len(eb.TokenPairs) != len(b.Pairs) {
		return bad("state.token-pairs", "token-pairs", ownSeqState, "%d token pairs, model %d", len(eb.TokenPairs), len(b.Pairs))
	}
	for _, tp := range eb.TokenPairs {
		if b.Pairs[tp.L2Denom] != tp.L1Denom {
			return bad("state.token-pairs", "token-pairs", ownSeqState, "token pair %s->%s, model %q", tp.L2Denom, tp.L1Denom, b.Pairs[tp.L2Denom])
		}
		if res, err := q.TokenPairByL2Denom(ctx, &ophosttypes.QueryTokenPairByL2DenomRequest{BridgeId: id, L2Denom: tp.L2Denom}); err != nil || res.TokenPair.L1Denom != tp.L1Denom {
			return bad("query.token-pair", "token-pairs", ownSeqState, "TokenPairByL2Denom(%s) = %v err=%v", tp.L2Denom, res, err)
		}
	}
	// outputs
	if eb.NextOutputIndex != b.NextOutIdx {
		return bad("state.next-output-index", "next-output-index", ownOutState, "next output index %d, model %d", eb.NextOutputIndex, b.NextOutIdx)
	}
	if len(eb.Proposals) != len(b.Outputs) {
		return bad("state.outputs", "output-count", ownOutState, "%d outputs stored, model %d", len(eb.Proposals), len(b.Outputs))
	}
	var prev *ophosttypes.WrappedOutput
	for i := range eb.Proposals {
		pr := &eb.Proposals[i]
		if pr.OutputIndex != uint64(i+1) {
			return bad("outputs.not-contiguous", "outputs-not-contiguous", ownOutState, "stored output indices are not 1..n: position %d has index %d", i, pr.OutputIndex)
		}
		mo := b.Outputs[pr.OutputIndex]
		if mo == nil || !bytes.Equal(pr.OutputProposal.OutputRoot, mo.Root[:]) || pr.OutputProposal.L2BlockNumber != mo.L2Block ||
			int64(pr.OutputProposal.L1BlockNumber) != mo.L1Height || !pr.OutputProposal.L1BlockTime.Equal(mo.L1Time) {
			return bad("state.outputs", "output-content", ownOutState, "output %d on chain %+v differs from model %+v", pr.OutputIndex, pr.OutputProposal, mo)
		}
		if prev != nil {
			if pr.OutputProposal.L2BlockNumber <= prev.OutputProposal.L2BlockNumber {
				return bad("outputs.l2-block-order", "outputs-l2block-order", ownOutState, "L2 block numbers not strictly increasing at index %d", pr.OutputIndex)
			}
			if pr.OutputProposal.L1BlockTime.Before(prev.OutputProposal.L1BlockTime) {
				return bad("outputs.l1-time-order", "outputs-l1time-order", ownOutState, "L1 proposal times decrease at index %d", pr.OutputIndex)
			}
		}
		prev = pr
	}
	// paginated listing with a run-chosen page size must give the same list
	limit := uint64(1 + w.r.Intn(4))
	if len(b.Outputs) > 40 {
		limit = uint64(1 + w.r.Intn(64))
	}
	var listed []ophosttypes.QueryOutputProposalResponse
	var key []byte
	for page := 0; page < len(b.Outputs)+4; page++ {
		res, err := q.OutputProposals(ctx, &ophosttypes.QueryOutputProposalsRequest{BridgeId: id, Pagination: &query.PageRequest{Key: key, Limit: limit}})
		if err != nil {
			return bad("query.output-proposals", "output-proposals-query", ownOutState, "OutputProposals query failed: %v", err)
		}
		listed = append(listed, res.OutputProposals...)
		if res.Pagination == nil || len(res.Pagination.NextKey) == 0 {
			break
		}
		key = res.Pagination.NextKey
	}
	if len(listed) != len(b.Outputs) {
		return bad("query.output-proposals", "output-proposals-query", ownOutState, "paginated OutputProposals lists %d outputs, model %d", len(listed), len(b.Outputs))
	}
	for i, o := range listed {
		if o.OutputIndex != uint64(i+1) || o.BridgeId != id || !bytes.Equal(o.OutputProposal.OutputRoot, b.Outputs[o.OutputIndex].Root[:]) {
			return bad("query.output-proposals", "output-proposals-query", ownOutState, "paginated OutputProposals entry %d is index %d", i, o.OutputIndex)
		}
	}
	for idx := uint64(1); idx <= b.NextOutIdx; idx++ {
		res, err := q.OutputProposal(ctx, &ophosttypes.QueryOutputProposalRequest{BridgeId: id, OutputIndex: idx})
		if idx < b.NextOutIdx {
			if err != nil || !bytes.Equal(res.OutputProposal.OutputRoot, b.Outputs[idx].Root[:]) {
				return bad("query.output-proposal", "output-proposal-query", ownOutState, "OutputProposal(%d) err=%v", idx, err)
			}
		} else if err == nil {
			return bad("query.output-proposal", "output-proposal-query", ownOutState, "OutputProposal(%d) answers although next index is %d", idx, b.NextOutIdx)
		}
	}
	// last finalized output: bounds, agreement with earlier observations, irreversibility
	lf, err := q.LastFinalizedOutput(ctx, &ophosttypes.QueryLastFinalizedOutputRequest{BridgeId: id})
	if err != nil {
		return bad("query.last-finalized", "last-finalized-query", []string{"C05", "C11"}, "LastFinalizedOutput failed: %v", err)
	}
	qbc := blockCtx{Height: bc.Height, Time: ctx.BlockTime()}
	lo, hi := w.m.lastFinalBounds(b, qbc.Height, qbc.Time)
	if lf.OutputIndex < lo || lf.OutputIndex > hi {
		return bad("lastfinal.query", "last-finalized-query", []string{"C05", "C11"}, "LastFinalizedOutput = %d at t=%s, admissible range [%d,%d] (everFinal=%d)", lf.OutputIndex, qbc.Time.Sub(simEpoch), lo, hi, b.EverFinal)
	}
	if lf.OutputIndex > 0 {
		if mo := b.Outputs[lf.OutputIndex]; mo == nil || !bytes.Equal(lf.OutputProposal.OutputRoot, mo.Root[:]) {
			return bad("lastfinal.query", "last-finalized-query", []string{"C05", "C11"}, "LastFinalizedOutput returns a different output for index %d", lf.OutputIndex)
		}
		if lf.OutputIndex > lo {
			w.r.Probe("finality.band-observed")
		}
		w.m.observe(b, lf.OutputIndex, qbc.Height, true)
	}
	for i := lf.OutputIndex + 1; i <= hi; i++ {
		w.m.observe(b, i, qbc.Height, false)
	}
	// claims: exact set, and the Claimed query for every known withdrawal
	if len(eb.ProvenWithdrawals) != len(b.Claims) {
		return bad("state.claims", "claim-set", ownClaimSt, "%d claim records, model %d", len(eb.ProvenWithdrawals), len(b.Claims))
	}
	for _, h := range eb.ProvenWithdrawals {
		var hh prover.Hash
		copy(hh[:], h)
		if !b.Claims[hh] {
			return bad("state.claims", "claim-set", ownClaimSt, "claim record %x not in model", h)
		}
	}
	for _, wd := range w.univ[id] {
		lf := wd.leaf(id)
		res, err := q.Claimed(ctx, &ophosttypes.QueryClaimedRequest{BridgeId: id, WithdrawalHash: lf[:]})
		if err != nil || res.Claimed != b.Claims[lf] {
			return bad("query.claimed", "claimed-query", []string{"C02"}, "Claimed(seq %d) = %v err=%v, paid in model: %v", wd.Seq, res, err, b.Claims[lf])
		}
	}
	rh := w.randHashNoDraw(id)
	if res, err := q.Claimed(ctx, &ophosttypes.QueryClaimedRequest{BridgeId: id, WithdrawalHash: rh[:]}); err != nil || res.Claimed {
		return bad("query.claimed", "claimed-query", []string{"C02"}, "Claimed(never committed hash) = %v err=%v", res, err)
	}
	// batch infos
	if len(eb.BatchInfos) != len(b.Batches) {
		return bad("state.batch-infos", "batch-infos", []string{"C16", "C12"}, "%d batch infos, model %d", len(eb.BatchInfos), len(b.Batches))
	}
	for i, bi := range eb.BatchInfos {
		mb := b.Batches[i]
		if int32(bi.BatchInfo.ChainType) != mb.ChainType || bi.BatchInfo.Submitter != mb.Submitter || bi.Output.L2BlockNumber != mb.Out.L2Block ||
			(mb.OutIdx != 0 && !bytes.Equal(bi.Output.OutputRoot, mb.Out.Root[:])) || (mb.OutIdx == 0 && len(bi.Output.OutputRoot) != 0) {
			return bad("state.batch-infos", "batch-infos", []string{"C16", "C12"}, "batch info %d differs from model", i)
		}
	}
	return nil
}

// randHashNoDraw derives a hash that was never committed without consuming
// choices (so that adding the query does not perturb schedules).
func (w *l1World) randHashNoDraw(id uint64) prover.Hash {
	return prover.Leaf(id, 1<<62, "never", "committed", "x", uint64(w.n.Height()))
}

func sortedU64(m map[uint64]bool) []uint64 {
	var out []uint64
	for k := range m {
		out = append(out, k)
	}
	sort.Slice(out, func(i, j int) bool { return out[i] < out[j] })
	return out
}
