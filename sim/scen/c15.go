package scen

import (
	"bytes"
	"encoding/binary"
	"fmt"
	cmtcrypto "github.com/cometbft/cometbft/proto/tendermint/crypto"
	"math/big"
	"sort"
	"strings"
	"time"

	cometabci "github.com/cometbft/cometbft/abci/types"
	cmted25519 "github.com/cometbft/cometbft/crypto/ed25519"
	cryptoenc "github.com/cometbft/cometbft/crypto/encoding"
	cmtproto "github.com/cometbft/cometbft/proto/tendermint/types"
	sdk "github.com/cosmos/cosmos-sdk/types"
	protoio "github.com/cosmos/gogoproto/io"
	connectcodec "github.com/skip-mev/connect/v2/abci/strategies/codec"
	"github.com/skip-mev/connect/v2/abci/strategies/currencypair"
	vetypes "github.com/skip-mev/connect/v2/abci/ve/types"
	connecttypes "github.com/skip-mev/connect/v2/pkg/types"

	"cosmossdk.io/math"
	banktypes "github.com/cosmos/cosmos-sdk/x/bank/types"
	opchildtypes "github.com/initia-labs/OPinit/x/opchild/types"

	"opsim/core"
	"opsim/node"
)

// ---------------------------------------------------------------------------
// C15 — oracle relay.  A simulated L1 validator set signs real vote
// extensions; a Byzantine relayer assembles extended commits (dropping,
// duplicating, forging, re-addressing votes; wrong chain id / height / round;
// unknown validators; replays); an IBC relayer refreshes the stored set.  An
// independent recount decides which price changes are admissible.
// ---------------------------------------------------------------------------

const c15Client = "07-tendermint-0"

var c15Pairs = []string{"BTC/USD", "ETH/USD", "ATOM/USD", "TIMESTAMP/NANOSECOND"}

type l1Val struct {
	Label string
	Priv  cmted25519.PrivKey
	Addr  []byte
	Power int64
}

type c15Vote struct {
	Val      *l1Val // nil: unknown validator
	Addr     []byte
	Flag     cmtproto.BlockIDFlag
	Prices   map[string]*big.Int // pair -> price as carried in the extension
	ValidSig bool                // (as judged when the payload was built) signed by Val's key over exactly (L1 chain id, H-1, round, extension)
	Signer   *l1Val              // whose key produced the signature
	CtxOK    bool                // the signed bytes bind exactly (L1 chain id, H-1, round, extension)
	Mangled  bool                // signature truncated, bit-flipped or absent
	Tag      string
}

type priceState struct {
	Has   bool
	Price string
	TS    time.Time
	Nonce uint64
}

type c15World struct {
	w              *l2World
	r              *core.Run
	pool           []*l1Val          // all candidate L1 validators
	set            map[string]*l1Val // model of the stored host set, by address
	setH           int64             // model of the stored host height (0: none)
	veCodec        connectcodec.VoteExtensionCodec
	ecCodec        connectcodec.ExtendedCommitCodec
	old            [][]byte // earlier update payloads (for replays)
	oldH           []uint64
	oldVotes       [][]c15Vote
	oldRound       []int32
	lastTS         int64
	updatesOK      int
	pendingMembers []*l1Val
	lastVS         *cmtproto.ValidatorSet // the set of the last recorded refresh, and its members
	lastMembers    []*l1Val
	pendingHostile bool // the pending refresh carries a validator whose key cannot be converted
}

func newC15(r *core.Run, prop string, replicas bool) *c15World {
	p := &l2Profile{Prop: prop, MaxTx: 2, W: map[string]int{"bridgeinfo": 5, "params": 3, "send": 2}, ClientID: c15Client, Pairs: c15Pairs, ForceBridgeInfo: true,
		NonTriv: func(*l2World) bool { return true }}
	if r.Chance(1, 4) {
		p.ClientID = "" // the L1 client id is not configured yet (it can be bound later through MsgSetBridgeInfo)
	}
	c := &c15World{r: r, set: map[string]*l1Val{}}
	c.w = newL2World(r, p)
	if replicas {
		c.w.addReplicas()
	}
	c.veCodec = connectcodec.NewCompressionVoteExtensionCodec(connectcodec.NewDefaultVoteExtensionCodec(), connectcodec.NewZLibCompressor())
	c.ecCodec = connectcodec.NewCompressionExtendedCommitCodec(connectcodec.NewDefaultExtendedCommitCodec(), connectcodec.NewZStdCompressor())
	n := 3 + r.Intn(5)
	for i := 0; i < n+2; i++ {
		seed := []byte(fmt.Sprintf("opsim-l1val-%d", i))
		pk := cmted25519.GenPrivKeyFromSecret(seed)
		c.pool = append(c.pool, &l1Val{Label: fmt.Sprintf("L1v%d", i), Priv: pk, Addr: pk.PubKey().Address()})
	}
	c.lastTS = c.w.now.UnixNano()
	return c
}

// encodeVE is the compressed wire form of a vote extension with the map entries in ascending id order (the
// generated marshaller walks the Go map, so the byte string - and with compression its length, and with that
// the transaction's gas - would differ from one replay of the same choices to the next).
func encodeVE(prices map[uint64][]byte) ([]byte, error) {
	ids := make([]uint64, 0, len(prices))
	for id := range prices {
		ids = append(ids, id)
	}
	sort.Slice(ids, func(i, j int) bool { return ids[i] < ids[j] })
	var bz []byte
	for _, id := range ids {
		entry := append([]byte{0x08}, binary.AppendUvarint(nil, id)...)
		if v := prices[id]; len(v) > 0 {
			entry = append(entry, 0x12)
			entry = binary.AppendUvarint(entry, uint64(len(v)))
			entry = append(entry, v...)
		}
		bz = append(bz, 0x0a)
		bz = binary.AppendUvarint(bz, uint64(len(entry)))
		bz = append(bz, entry...)
	}
	return connectcodec.NewZLibCompressor().Compress(bz)
}

func (c *c15World) total() int64 {
	var t int64
	for _, v := range c.set {
		t += v.Power
	}
	return t
}

// refresh: the IBC relayer's light-client update (block-level input).
func (c *c15World) genRefresh() (node.HostSetUpdate, string) {
	r := c.r
	n := 3 + r.Intn(len(c.pool)-2)
	perm := make([]int, len(c.pool))
	for i := range perm {
		perm[i] = i
	}
	for i := len(perm) - 1; i > 0; i-- {
		j := r.Intn(i + 1)
		perm[i], perm[j] = perm[j], perm[i]
	}
	vs := &cmtproto.ValidatorSet{}
	var members []*l1Val
	for _, i := range perm[:n] {
		v := c.pool[i]
		pw := int64(1 + r.Intn(10))
		if r.Chance(1, 4) {
			pw = int64(20 + r.Intn(30)) // a heavy validator, to sit near the 2/3 line
		}
		pkp, err := cryptoenc.PubKeyToProto(v.Priv.PubKey())
		if err != nil {
			panic(err)
		}
		vs.Validators = append(vs.Validators, &cmtproto.Validator{Address: v.Addr, PubKey: pkp, VotingPower: pw})
		cp := *v
		cp.Power = pw
		members = append(members, &cp)
	}
	same := c.lastVS != nil && r.Chance(1, 4)
	if same {
		// the usual light-client update: a newer header, the validator set unchanged
		vs, members = &cmtproto.ValidatorSet{}, c.lastMembers
		for _, v := range c.lastVS.Validators {
			cp := *v
			vs.Validators = append(vs.Validators, &cp)
		}
		n = len(members)
	}
	h := c.setH + 1 + int64(r.Intn(5))
	client := c15Client
	tag := "higher"
	switch r.Weighted([]int{8, 1, 1, 1, 1}) {
	case 1:
		h = c.setH
		tag = "equal-height"
	case 2:
		if c.setH > 1 {
			h = c.setH - 1
		}
		tag = "lower-height"
	case 3:
		client = "07-tendermint-9"
		tag = "foreign-client"
	case 4:
		client = ""
		tag = "empty-client"
	}
	c.pendingMembers = members
	c.pendingHostile = false
	if same {
		tag += ",same-set"
	}
	if tag == "higher" && r.Chance(1, 10) {
		// one validator of the L1 set uses a key type the L2 cannot convert: no partial set may be recorded
		vs.Validators[r.Intn(len(vs.Validators))].PubKey = cmtcrypto.PublicKey{}
		c.pendingHostile = true
		tag = "higher,unconvertible-key"
	}
	return node.HostSetUpdate{ClientID: client, Height: h, Set: vs}, fmt.Sprintf("refresh %s client=%q height=%d validators=%d", tag, client, h, n)
}

// commitRefresh applies the model rule for a refresh that was part of a committed execution: the recorded set
// is replaced only by a higher-height set from the configured client.
func (c *c15World) commitRefresh(up node.HostSetUpdate) {
	cfgClient := ""
	if c.w.m.Bridge != nil {
		cfgClient = c.w.m.Bridge.L1ClientId
	}
	if up.ClientID != "" && up.ClientID == cfgClient && up.Height > c.setH {
		c.set = map[string]*l1Val{}
		for _, m := range c.pendingMembers {
			c.set[string(m.Addr)] = m
		}
		c.setH = up.Height
		c.lastVS, c.lastMembers = up.Set, c.pendingMembers
	}
}

func (c *c15World) pairID(p string) uint64 {
	id, err := currencypair.CurrencyPairToHashID(p)
	if err != nil {
		panic(err)
	}
	return id
}

func (c *c15World) signBytes(chainID string, height int64, round int64, ext []byte) []byte {
	cve := cmtproto.CanonicalVoteExtension{ChainId: chainID, Height: height, Round: round, Extension: ext}
	var buf bytes.Buffer
	if err := protoio.NewDelimitedWriter(&buf).WriteMsg(&cve); err != nil {
		panic(err)
	}
	return buf.Bytes()
}

// genUpdate builds one MsgUpdateOracle as a (possibly Byzantine) relayer would.
func (c *c15World) genUpdate() (*opchildtypes.MsgUpdateOracle, []c15Vote, uint64, int32, string) {
	r := c.r
	w := c.w
	honest := r.Chance(1, 3)
	H := uint64(c.setH) + uint64(r.Intn(4))
	if H == 0 {
		H = 1
	}
	if !honest && c.setH > 1 && r.Chance(1, 8) {
		H = uint64(c.setH) - 1 // older than the recorded validator set
	}
	round := int32(r.Intn(3))
	c.lastTS += int64(1+r.Intn(1000)) * int64(time.Millisecond)
	ts := c.lastTS
	if !honest && r.Chance(1, 6) {
		ts -= int64(time.Duration(1+r.Intn(3600)) * time.Second) // stale timestamp (replay / rollback)
	}
	if !honest && r.Chance(1, 6) {
		// just above the oldest stored timestamp: newer than some pairs, older than others
		var oldest, newest int64
		for _, ps := range c.readPrices(w.n.QueryCtx()) {
			if !ps.Has {
				continue
			}
			if t := ps.TS.UnixNano(); oldest == 0 || t < oldest {
				oldest = t
			}
			if t := ps.TS.UnixNano(); t > newest {
				newest = t
			}
		}
		if oldest != 0 && newest > oldest {
			ts = oldest + 1 + int64(r.Uint64n(uint64(newest-oldest)))
			r.Fault("byzantine.timestamp-between-pairs")
		}
	}
	base := map[string]*big.Int{"BTC/USD": big.NewInt(int64(60000 + r.Intn(1000))), "ETH/USD": big.NewInt(int64(3000 + r.Intn(100))), "ATOM/USD": big.NewInt(int64(5 + r.Intn(5)))}
	// deterministic member order
	addrs := make([]string, 0, len(c.set))
	for a := range c.set {
		addrs = append(addrs, a)
	}
	sort.Strings(addrs)
	var votes []c15Vote
	var infos []cometabci.ExtendedVoteInfo
	var tags []string
	mk := func(val *l1Val, addr []byte, power int64, flag cmtproto.BlockIDFlag, prices map[string]*big.Int, sigMode string) {
		ve := vetypes.OracleVoteExtension{Prices: map[uint64][]byte{}}
		for p, v := range prices {
			bz, _ := v.GobEncode()
			ve.Prices[c.pairID(p)] = bz
		}
		ext, err := encodeVE(ve.Prices)
		if err != nil {
			panic(err)
		}
		vote := c15Vote{Val: val, Addr: addr, Flag: flag, Prices: prices, Tag: sigMode}
		var sig []byte
		signer := val
		chain, hh, rr := node.L1ChainID, int64(H)-1, int64(round)
		switch sigMode {
		case "ok":
			vote.ValidSig = val != nil
		case "wrong-chain":
			chain = "other-chain"
		case "wrong-height":
			hh++
		case "wrong-round":
			rr++
		case "other-key":
			signer = c.pool[r.Intn(len(c.pool))]
			if val != nil && bytes.Equal(signer.Addr, val.Addr) {
				vote.ValidSig = true
			}
		}
		if signer == nil {
			signer = c.pool[0]
		}
		if flag == cmtproto.BlockIDFlagCommit || sigMode != "none" {
			s, err := signer.Priv.Sign(c.signBytes(chain, hh, rr, ext))
			if err != nil {
				panic(err)
			}
			sig = s
		}
		switch sigMode {
		case "truncated":
			sig = sig[:len(sig)/2]
			vote.ValidSig = false
		case "flipped":
			sig[5] ^= 0x10
			vote.ValidSig = false
		case "none":
			sig = nil
		}
		if flag != cmtproto.BlockIDFlagCommit {
			vote.ValidSig = false
		}
		vote.Signer = signer
		vote.CtxOK = chain == node.L1ChainID && hh == int64(H)-1 && rr == int64(round)
		vote.Mangled = sigMode == "truncated" || sigMode == "flipped" || sigMode == "none"
		votes = append(votes, vote)
		info := cometabci.ExtendedVoteInfo{Validator: cometabci.Validator{Address: addr, Power: power}, BlockIdFlag: flag, VoteExtension: ext, ExtensionSignature: sig}
		if flag != cmtproto.BlockIDFlagCommit && sigMode == "none" {
			if r.Chance(1, 2) {
				info.VoteExtension = nil
			}
		}
		infos = append(infos, info)
	}
	pricesFor := func() map[string]*big.Int {
		m := map[string]*big.Int{"TIMESTAMP/NANOSECOND": big.NewInt(ts)}
		for _, p := range []string{"ATOM/USD", "BTC/USD", "ETH/USD"} { // fixed order: each draw belongs to one pair
			if v := base[p]; honest || r.Chance(5, 6) {
				m[p] = new(big.Int).Add(v, big.NewInt(int64(r.Intn(5))))
			}
		}
		if !honest && r.Chance(1, 8) {
			delete(m, "TIMESTAMP/NANOSECOND")
		}
		return m
	}
	for _, a := range addrs {
		v := c.set[a]
		if honest {
			mk(v, v.Addr, v.Power, cmtproto.BlockIDFlagCommit, pricesFor(), "ok")
			continue
		}
		switch r.Weighted([]int{10, 3, 1, 1, 1, 1, 2, 1, 1}) {
		case 0:
			mk(v, v.Addr, v.Power, cmtproto.BlockIDFlagCommit, pricesFor(), "ok")
		case 1:
			tags = append(tags, "drop")
		case 2:
			mk(v, v.Addr, v.Power, cmtproto.BlockIDFlagCommit, pricesFor(), []string{"wrong-chain", "wrong-height", "wrong-round"}[r.Intn(3)])
			tags = append(tags, "misbound-sig")
		case 3:
			mk(v, v.Addr, v.Power, cmtproto.BlockIDFlagCommit, pricesFor(), []string{"other-key", "truncated", "flipped"}[r.Intn(3)])
			tags = append(tags, "forged-sig")
		case 4:
			mk(v, v.Addr, v.Power, cmtproto.BlockIDFlagAbsent, nil, "none")
			tags = append(tags, "absent-vote")
		case 5:
			mk(v, v.Addr, v.Power, cmtproto.BlockIDFlagNil, pricesFor(), "ok")
			tags = append(tags, "nil-vote-with-extension")
		case 6:
			// duplicated entry, second one with attacker-chosen prices and a forged signature
			mk(v, v.Addr, v.Power, cmtproto.BlockIDFlagCommit, pricesFor(), "ok")
			evil := map[string]*big.Int{"TIMESTAMP/NANOSECOND": big.NewInt(ts), "BTC/USD": big.NewInt(1), "ETH/USD": big.NewInt(1)}
			mk(v, v.Addr, v.Power, cmtproto.BlockIDFlagCommit, evil, []string{"flipped", "other-key", "ok", "ok"}[r.Intn(4)])
			tags = append(tags, "duplicate-entry")
		case 7:
			// the same valid vote repeated (power must not count twice)
			pr := pricesFor()
			mk(v, v.Addr, v.Power, cmtproto.BlockIDFlagCommit, pr, "ok")
			mk(v, v.Addr, v.Power, cmtproto.BlockIDFlagCommit, pr, "ok")
			tags = append(tags, "repeated-vote")
		case 8:
			mk(v, v.Addr, v.Power, cmtproto.BlockIDFlagCommit, pricesFor(), "none")
			tags = append(tags, "missing-sig")
		}
	}
	if !honest && r.Chance(1, 3) {
		// an unknown validator claiming a lot of power, with attacker prices
		u := c.pool[len(c.pool)-1]
		if _, member := c.set[string(u.Addr)]; !member {
			evil := map[string]*big.Int{"TIMESTAMP/NANOSECOND": big.NewInt(ts), "BTC/USD": big.NewInt(7), "ETH/USD": big.NewInt(7), "ATOM/USD": big.NewInt(7)}
			mk(nil, u.Addr, 1_000_000, cmtproto.BlockIDFlagCommit, evil, "other-key")
			tags = append(tags, "unknown-validator")
		}
	}
	if !honest && len(infos) > 1 && r.Chance(1, 4) {
		i, j := r.Intn(len(infos)), r.Intn(len(infos))
		infos[i], infos[j] = infos[j], infos[i]
		votes[i], votes[j] = votes[j], votes[i]
	}
	bz, err := c.ecCodec.Encode(cometabci.ExtendedCommitInfo{Round: round, Votes: infos})
	if err != nil {
		panic(err)
	}
	sender := w.executors[r.Intn(len(w.executors))]
	if len(w.m.Params.BridgeExecutors) > 0 {
		sender = w.m.Params.BridgeExecutors[r.Intn(len(w.m.Params.BridgeExecutors))]
	}
	if !honest && r.Chance(1, 10) {
		sender = w.outsider
		tags = append(tags, "non-executor")
	}
	if !honest && len(c.old) > 0 && r.Chance(1, 8) {
		k := r.Intn(len(c.old))
		r.Fault("byzantine.replay")
		// the recount treats a replay like any other payload: signatures are judged against the
		// validator set recorded now (the payload may have been rejected the first time)
		rv := append([]c15Vote{}, c.oldVotes[k]...)
		for i := range rv {
			if rv[i].Val != nil {
				if m := c.set[string(rv[i].Addr)]; m == nil {
					rv[i].Val = nil
				}
			}
		}
		return &opchildtypes.MsgUpdateOracle{Sender: sender, Height: c.oldH[k], Data: c.old[k]}, rv, c.oldH[k], c.oldRound[k], "REPLAY of an earlier update"
	}
	c.old = append(c.old, bz)
	c.oldH = append(c.oldH, H)
	c.oldVotes = append(c.oldVotes, votes)
	c.oldRound = append(c.oldRound, round)
	for _, t := range tags {
		r.Fault("byzantine." + t)
	}
	kind := "byzantine[" + strings.Join(tags, ",") + "]"
	if honest {
		kind = "honest-full-quorum"
	}
	return &opchildtypes.MsgUpdateOracle{Sender: sender, Height: H, Data: bz}, votes, H, round, fmt.Sprintf("%s height=%d round=%d votes=%d ts=+%s", kind, H, round, len(infos), time.Duration(ts-simEpoch.UnixNano()))
}

func (c *c15World) readPrices(ctx sdk.Context) map[string]priceState {
	out := map[string]priceState{}
	for _, p := range c15Pairs {
		cp, err := connecttypes.CurrencyPairFromString(p)
		if err != nil {
			panic(err)
		}
		qp, err := c.w.n.OrK.GetPriceWithNonceForCurrencyPair(ctx, cp)
		if err != nil {
			out[p] = priceState{}
			continue
		}
		out[p] = priceState{Has: true, Price: qp.Price.String(), TS: qp.BlockTimestamp, Nonce: qp.Nonce()}
	}
	return out
}

func (c *c15World) checkHostSet() *core.Violation {
	ctx := c.w.n.QueryCtx()
	vals, err := c.w.n.OK.HostValidatorStore.GetAllValidators(ctx)
	if err != nil {
		panic(err)
	}
	h, herr := c.w.n.OK.HostValidatorStore.GetLastHeight(ctx)
	if herr != nil {
		h = 0
	}
	own := []string{"C15"}
	if h != c.setH {
		return c.w.fail(mismatch{"hostset.height", "host-set-height", own, fmt.Sprintf("stored L1 validator-set height %d, model %d", h, c.setH)})
	}
	if len(vals) != len(c.set) {
		return c.w.fail(mismatch{"hostset.members", "host-set-members", own, fmt.Sprintf("stored L1 validator set has %d members, model %d", len(vals), len(c.set))})
	}
	for _, v := range vals {
		ca, err := v.GetConsAddr()
		if err != nil {
			panic(err)
		}
		m := c.set[string(ca)]
		if m == nil || v.Tokens.Quo(sdk.DefaultPowerReduction).Int64() != m.Power {
			return c.w.fail(mismatch{"hostset.members", "host-set-members", own, fmt.Sprintf("stored L1 validator %x power %s differs from model", ca, v.Tokens)})
		}
	}
	return nil
}

func runC15(r *core.Run) *core.Violation { return runC15As(r, "C15", false) }

// runC15As runs the oracle-relay scenario for another property (C18 attaches replicas
// to it: every judgement owned by C15 then merely aborts the run).
func runC15As(r *core.Run, prop string, replicas bool) *core.Violation {
	c := newC15(r, prop, replicas)
	w := c.w
	steps := 10 + r.Intn(30)
	if r.Tier == "thorough" && r.Chance(1, 4) {
		steps *= 3
	}
	for i := 0; i < steps; i++ {
		switch r.Weighted([]int{3, 10, 2}) {
		case 0:
			up, desc := c.genRefresh()
			path := r.Weighted([]int{4, 3, 3})
			if c.pendingHostile {
				// only inside a transaction: the update is refused there and the transaction fails as a whole
				r.Step("host.refresh", "%s (inside a tx that must fail)", desc)
				from := w.pickUser()
				carrier := &banktypes.MsgSend{FromAddress: from, ToAddress: from, Amount: sdk.NewCoins(sdk.NewCoin("umin", math.NewInt(1)))}
				must := ""
				if cfg := w.m.Bridge; cfg != nil && up.ClientID != "" && up.ClientID == cfg.L1ClientId && up.Height > c.setH {
					must = "a light-client update with an unconvertible validator key" // (an update that is ignored anyway - other client, old height - is not looked at)
				}
				if v := c.blockMust(carrier, "send", "client update carrier", node.HostMemo(up), must); v != nil {
					return v
				}
				if v := c.checkHostSet(); v != nil {
					return v
				}
				continue
			}
			switch path {
			case 0:
				// block-level input (the update reaches opchild outside any transaction)
				r.Step("host.refresh", "%s (block-level)", desc)
				w.pendingHost = []node.HostSetUpdate{up}
				c.commitRefresh(up)
				if v := c.block(nil, "", ""); v != nil {
					return v
				}
			case 1:
				// inside a committed transaction
				r.Step("host.refresh", "%s (inside a committed tx)", desc)
				c.commitRefresh(up)
				from := w.pickUser()
				carrier := &banktypes.MsgSend{FromAddress: from, ToAddress: from, Amount: sdk.NewCoins(sdk.NewCoin("umin", math.NewInt(1)))}
				if v := c.blockMemo(carrier, "send", "client update carrier", node.HostMemo(up)); v != nil {
					return v
				}
			default:
				// inside an execution that is thrown away (gas simulation / rejected CheckTx): must leave no trace
				r.Step("host.refresh", "%s (inside a DISCARDED simulation)", desc)
				r.Fault("discarded-execution.client-update")
				from := w.pickUser()
				carrier := &banktypes.MsgSend{FromAddress: from, ToAddress: from, Amount: sdk.NewCoins(sdk.NewCoin("umin", math.NewInt(1)))}
				bz, err := node.BuildTx(w.enc, []sdk.Msg{carrier}, node.TxOpts{Memo: node.HostMemo(up)})
				if err != nil {
					panic(err)
				}
				_, _, _ = w.n.App.Simulate(bz)
			}
			if v := c.checkHostSet(); v != nil {
				return v
			}
		case 1:
			msg, votes, H, round, desc := c.genUpdate()
			before := c.readPrices(w.n.QueryCtx())
			if v := c.block(msg, "oracle", desc); v != nil {
				return v
			}
			if v := c.judge(msg, votes, H, round, before, desc); v != nil {
				return v
			}
		default:
			// admin traffic: toggle the oracle flag, rotate executors, ...
			if v := w.runBlock(); v != nil {
				return v
			}
		}
	}
	r.NonTriv = c.updatesOK >= 1 && r.Probes["oracle.rejected"] >= 1
	return nil
}

func (c *c15World) block(msg sdk.Msg, kind, desc string) *core.Violation {
	return c.blockMemo(msg, kind, desc, "")
}

func (c *c15World) blockMemo(msg sdk.Msg, kind, desc, memo string) *core.Violation {
	return c.blockMust(msg, kind, desc, memo, "")
}

func (c *c15World) blockMust(msg sdk.Msg, kind, desc, memo, mustFail string) *core.Violation {
	w := c.w
	T := w.now.Add(time.Duration(1+c.r.Intn(5)) * time.Second)
	bc := blockCtx{Height: w.n.Height() + 1, Time: T}
	w.planClass = ""
	w.histEntriesAtBegin = w.m.Params.HistoricalEntries
	for h := range w.histWritten {
		if h <= bc.Height-int64(w.histEntriesAtBegin) {
			delete(w.histWritten, h)
		}
	}
	if w.histEntriesAtBegin > 0 {
		w.histWritten[bc.Height] = true
	}
	var txs []l2Pending
	if msg != nil {
		bz, err := node.BuildTx(w.enc, []sdk.Msg{msg}, node.TxOpts{Memo: memo})
		if err != nil {
			panic(err)
		}
		txs = append(txs, l2Pending{Msgs: []sdk.Msg{msg}, Bytes: bz, Kind: kind, Desc: desc, MustFail: mustFail})
	}
	crash := ""
	if c.r.Chance(1, 10) {
		crash = []string{"before-finalize", "after-finalize-before-commit", "after-commit", "aborted-optimistic-execution"}[c.r.Intn(4)]
	}
	return w.execBlock(bc, txs, crash)
}

// judge is the independent recount.
func (c *c15World) judge(msg *opchildtypes.MsgUpdateOracle, votes []c15Vote, H uint64, round int32, before map[string]priceState, desc string) *core.Violation {
	w := c.w
	own := []string{"C15"}
	ok := w.lastRes.TxResults[0].Code == 0
	after := c.readPrices(w.n.QueryCtx())
	changed := []string{}
	for _, p := range c15Pairs {
		if before[p] != after[p] {
			changed = append(changed, p)
		}
	}
	if !ok {
		c.r.Probe("oracle.rejected")
		if len(changed) > 0 {
			return w.fail(mismatch{"oracle.failed-update-changed-prices", "failed-update-changed-prices", own, fmt.Sprintf("a rejected oracle update changed %v", changed)})
		}
		if strings.HasPrefix(desc, "honest-full-quorum") && c.setH > 0 && w.m.isExecutor(msg.Sender) && w.m.Bridge != nil && w.m.Bridge.BridgeConfig.OracleEnabled && int64(H) >= c.setH {
			return w.fail(mismatch{"oracle.honest-update-rejected", "honest-update-rejected", own, "an honest full-quorum update was rejected: " + firstLine(w.lastRes.TxResults[0].Log)})
		}
		return nil
	}
	c.updatesOK++
	c.r.Probe("oracle.accepted")
	if !w.m.isExecutor(msg.Sender) {
		return w.fail(mismatch{"auth.update-oracle", "update-oracle-by-non-executor", []string{"C15", "C12"}, "oracle update by a non-executor succeeded"})
	}
	if w.m.Bridge == nil || !w.m.Bridge.BridgeConfig.OracleEnabled {
		return w.fail(mismatch{"oracle.disabled", "update-oracle-while-disabled", []string{"C15", "C12"}, "oracle update succeeded while the bridge has the oracle disabled"})
	}
	if int64(H) < c.setH || c.setH == 0 {
		return w.fail(mismatch{"oracle.height-older-than-set", "update-older-than-validator-set", own, fmt.Sprintf("oracle update for height %d accepted, recorded validator set is at %d", H, c.setH)})
	}
	total := c.total()
	for _, p := range changed {
		// distinct known validators with a commit vote, a valid signature and a price for p
		support := map[string]bool{}
		var lo, hi *big.Int
		for _, v := range votes {
			// validity is judged against the validator set recorded now: a payload built (or first relayed)
			// under another set may carry votes of validators that were unknown then and are members now
			m := c.set[string(v.Addr)]
			if m == nil || v.Flag != cmtproto.BlockIDFlagCommit || v.Mangled || !v.CtxOK || v.Signer == nil || !bytes.Equal(v.Signer.Addr, m.Addr) {
				continue
			}
			pr, has := v.Prices[p]
			if !has {
				continue
			}
			support[string(v.Addr)] = true
			if lo == nil || pr.Cmp(lo) < 0 {
				lo = pr
			}
			if hi == nil || pr.Cmp(hi) > 0 {
				hi = pr
			}
		}
		var sp int64
		for a := range support {
			sp += c.set[a].Power
		}
		if 3*sp < 2*total {
			return w.fail(mismatch{"oracle.quorum", "price-changed-without-quorum", own, fmt.Sprintf("price of %s changed with validly signed support %d of %d (< 2/3) {%s}", p, sp, total, desc)})
		}
		np, _ := new(big.Int).SetString(after[p].Price, 10)
		if np == nil || np.Cmp(lo) < 0 || np.Cmp(hi) > 0 {
			return w.fail(mismatch{"oracle.price-not-from-signed-votes", "price-outside-signed-votes", own, fmt.Sprintf("new price of %s is %s, validly signed votes range [%s,%s] {%s}", p, after[p].Price, lo, hi, desc)})
		}
		if before[p].Has && !after[p].TS.After(before[p].TS) {
			return w.fail(mismatch{"oracle.timestamp-not-increasing", "timestamp-not-increasing", own, fmt.Sprintf("pair %s timestamp %s -> %s", p, before[p].TS, after[p].TS)})
		}
	}
	if strings.HasPrefix(desc, "honest-full-quorum") {
		for _, p := range c15Pairs {
			if before[p] == after[p] {
				return w.fail(mismatch{"oracle.honest-update-incomplete", "honest-update-incomplete", own, "an honest full-quorum update did not update " + p})
			}
		}
		c.r.Probe("oracle.honest-update-applied")
	}
	if len(changed) > 0 {
		c.r.Probe("oracle.prices-changed")
	}
	return nil
}
