package scen

import (
	"bytes"
	"fmt"
	"math/big"
	"sort"
	"strings"
	"time"

	"cosmossdk.io/math"
	abci "github.com/cometbft/cometbft/abci/types"
	dbm "github.com/cosmos/cosmos-db"
	sdk "github.com/cosmos/cosmos-sdk/types"
	authtypes "github.com/cosmos/cosmos-sdk/x/auth/types"
	banktypes "github.com/cosmos/cosmos-sdk/x/bank/types"
	"github.com/cosmos/gogoproto/proto"

	ophosttypes "github.com/initia-labs/OPinit/x/ophost/types"

	"opsim/core"
	"opsim/node"
	"opsim/prover"
)

// l1Profile is the per-property workload / fault mix of the L1 world.
type l1Profile struct {
	Prop     string
	Blocks   [2]int // min,max blocks per run
	MaxTx    int
	W        map[string]int // op weights
	Byz      int            // % of claims that are perturbed
	Crash    int            // % of blocks with a crash/restart
	DepFault int            // % of txs with an armed dependency fault
	HookPct  int            // % of runs that use IBC-permission metadata although Hook is not set
	GasAbort int            // % of txs with a tiny gas limit
	Periods  []time.Duration
	Hook     bool // permissioned-channel metadata + IBC stub traffic
	BadCfg   int  // % of create-bridge messages with a hostile period
	RegFee   bool
	Reimport int // % of blocks preceded by a restart of the chain from its exported genesis
	NonTriv  func(w *l1World) bool
}

type pendingTx struct {
	Msgs   []sdk.Msg // more than one message: an atomic multi-message transaction
	Msg    sdk.Msg
	Bytes  []byte
	Kind   string
	LowGas bool
	Fault  string
	Desc   string
}

type l1World struct {
	hook        bool // IBC-permission metadata, stub traffic and the admin-table comparison are on in this run
	r           *core.Run
	p           *l1Profile
	db          *dbm.MemDB
	n           *node.L1
	m           *modelL1
	enc         node.Encoding
	users       []sdk.AccAddress
	ustr        []string
	denoms      []string
	now         time.Time
	univ        map[uint64][]withdrawal
	wseq        map[uint64]uint64
	commits     map[prover.Hash]*commitment
	chans       []permChan
	prevDig     map[string][32]byte
	succ        map[string]int // successful ops by kind
	paid        map[string]int // bridge/leaf -> successful finalisations
	avoidKnown  bool
	lastRes     *abci.ResponseFinalizeBlock
	ownAll      bool // C16 after a re-import: every deviation from the model is a deviation from the original chain
	replicas    []*l1Replica
	recent      [][]byte  // recently broadcast transactions (client traffic re-uses them)
	avoidBridge uint64    // see pickBridge
	bigClaim    *bigClaim // a large committed withdrawal set waiting to be claimed in one block
	bigNext     bool      // the next proposal commits to a large fresh withdrawal set
	burstTail   bool      // the last operation of a burst block: a deletion somewhere in the long log
	burstBridge uint64    // while non-zero every generated operation is an output proposal for this bridge (long logs)
	lenient     bool      // deviations owned by other properties are logged, not fatal (state comparison right after a genesis restart)
	sidePct     int       // % of schedule points with client traffic on discarded branches
	genesis     *node.L1Genesis
}

var simEpoch = time.Date(2026, 1, 1, 0, 0, 0, 0, time.UTC)

// epochShift places a chain's clock in another era for some runs (clock skew
// between the chains and between simulated time and the host's wall clock:
// behaviour that secretly reads the wall clock changes with it).
func epochShift(r *core.Run) time.Duration {
	switch r.Weighted([]int{6, 1, 1}) {
	case 1:
		return -24 * 365 * 24 * time.Hour // the past
	case 2:
		return 74 * 365 * 24 * time.Hour // the future
	}
	return 0
}

func (w *l1World) own(owners []string) bool {
	if w.ownAll {
		return true
	}
	for _, o := range owners {
		if o == w.p.Prop {
			return true
		}
	}
	return false
}

// fail turns a mismatch into this property's violation, or ends the run with
// no verdict if the mismatch belongs to another property's oracle.
func (w *l1World) fail(m mismatch) *core.Violation {
	if w.own(m.Owners) {
		return w.r.Viol(m.Inv, m.Key, "%s", m.Msg)
	}
	if w.lenient {
		w.r.Logf("(not judged here, owned by %v) %s: %s", m.Owners, m.Inv, m.Msg)
		return nil
	}
	panic(core.Abort{Reason: "foreign:" + m.Inv})
}

func newL1World(r *core.Run, p *l1Profile) *l1World {
	w := &l1World{r: r, p: p, db: dbm.NewMemDB(), univ: map[uint64][]withdrawal{}, wseq: map[uint64]uint64{}, commits: map[prover.Hash]*commitment{},
		prevDig: map[string][32]byte{}, succ: map[string]int{}, paid: map[string]int{}}
	w.hook = p.Hook || (p.HookPct > 0 && r.Chance(p.HookPct, 100))
	nu := 4 + r.Intn(4)
	for i := 0; i < nu; i++ {
		a := node.AddrN("user", i)
		w.users = append(w.users, a)
		w.ustr = append(w.ustr, a.String())
	}
	nd := 1 + r.Intn(3)
	w.denoms = []string{"uinit", "uusdc", "ibc/27394FB092D2ECCD56123C74F36E4C1F926001CEADA9CA97EA622B25F41E5EB2"}[:nd]
	if r.Chance(1, 4) {
		// denoms of the greatest length the bank accepts (128), differing in the last character only, and one of 127
		long := "factory/" + strings.Repeat("x", 119)
		w.denoms = append(w.denoms, long+"a", long+"b", long)
	}
	w.now = simEpoch.Add(epochShift(r)).Add(time.Duration(r.Intn(1000)) * time.Millisecond)
	bal := map[string]sdk.Coins{}
	gov := authtypes.NewModuleAddress("gov").String()
	w.m = newModelL1(gov, authtypes.NewModuleAddress(node.DistrModule))
	for i, a := range w.users {
		var cs sdk.Coins
		for _, d := range w.denoms {
			amtB := new(big.Int).SetUint64(uint64(1_000_000 + r.Intn(9_000_000)))
			if i == 0 {
				switch r.Intn(4) {
				case 0:
					amtB = new(big.Int).Lsh(big.NewInt(1), 62) // a whale, so that amounts around 2^63 are affordable
				case 1:
					amtB = new(big.Int).Lsh(big.NewInt(1), 70) // holdings (and so escrows) beyond 64 bits
				}
			}
			cs = cs.Add(sdk.NewCoin(d, math.NewIntFromBigInt(amtB)))
			w.m.Bal.add(a, d, amtB)
		}
		bal[a.String()] = cs
	}
	gen := &node.L1Genesis{Time: w.now, Balances: bal}
	if p.RegFee && r.Chance(1, 2) {
		og := ophosttypes.DefaultGenesisState()
		og.Params.RegistrationFee = sdk.NewCoins(sdk.NewCoin(w.denoms[0], math.NewInt(int64(1+r.Intn(1000)))))
		gen.Ophost = og
		w.m.RegFee = og.Params.RegistrationFee
	}
	w.genesis = gen
	w.n = node.NewL1(w.db, gen)
	w.enc = w.n.Enc
	for _, port := range []string{"transfer", "nft-transfer"} {
		for c := 0; c < 3; c++ {
			w.chans = append(w.chans, permChan{port, fmt.Sprintf("channel-%d", c)})
		}
	}
	w.avoidKnown = r.Chance(4, 5)
	w.sidePct = []int{0, 10, 30, 60}[r.Intn(4)]
	r.Logf("L1 world: users=%d denoms=%d regfee=%s avoidKnown=%v t0=%s", nu, nd, w.m.RegFee, w.avoidKnown, w.now.Format(time.RFC3339Nano))
	return w
}

func (w *l1World) pickUser() string { return w.ustr[w.r.Intn(len(w.ustr))] }

// pickSigner returns an authorised signer most of the time.
func (w *l1World) pickSigner(auth ...string) string {
	if len(auth) > 0 && w.r.Chance(3, 4) {
		return auth[w.r.Intn(len(auth))]
	}
	if w.r.Chance(1, 6) {
		return w.m.Gov
	}
	return w.pickUser()
}

func (w *l1World) pickBridge(m *modelL1, allowMissing bool) uint64 {
	ids := m.bridgeIDs()
	if w.avoidBridge != 0 {
		// background traffic of the other rollups on this L1 never touches the simulated L2's own bridge
		var rest []uint64
		for _, id := range ids {
			if id != w.avoidBridge {
				rest = append(rest, id)
			}
		}
		ids = rest
	}
	if w.burstBridge != 0 && m.Bridges[w.burstBridge] != nil {
		return w.burstBridge
	}
	if allowMissing && (len(ids) == 0 || w.r.Chance(1, 8)) {
		return m.NextBridgeID + uint64(w.r.Intn(2))
	}
	if len(ids) == 0 {
		return 0
	}
	return ids[w.r.Intn(len(ids))]
}

func (w *l1World) randHash() prover.Hash {
	var h prover.Hash
	for i := 0; i < 4; i++ {
		v := w.r.Uint64n(0)
		for j := 0; j < 8; j++ {
			h[i*8+j] = byte(v >> (8 * j))
		}
	}
	return h
}

func (w *l1World) genMetadata() []byte {
	if !w.hook {
		switch w.r.Intn(3) {
		case 0:
			return nil
		case 1:
			return []byte("plain metadata")
		default:
			return []byte(`{"note":"x"}`)
		}
	}
	pc := func() string {
		c := w.chans[w.r.Intn(len(w.chans))]
		if w.r.Chance(1, 12) {
			c.Channel = "channel-9" // never opened
		}
		return fmt.Sprintf(`{"port_id":%q,"channel_id":%q}`, c.Port, c.Channel)
	}
	list := func() string {
		n := 1 + w.r.Intn(3)
		var xs []string
		for i := 0; i < n; i++ {
			xs = append(xs, pc())
		}
		return "[" + strings.Join(xs, ",") + "]"
	}
	switch w.r.Weighted([]int{8, 2, 1, 1, 1, 1, 1, 1, 1, 1, 1, 1, 1, 1}) {
	case 13:
		// a valid document followed by more bytes: not JSON as a whole
		return []byte(`{"perm_channels":` + list() + `}` + []string{`}`, ` x`, `{"perm_channels":[]}`, `,`}[w.r.Intn(4)])
	case 11:
		// the same document with the key written with a JSON escape (every JSON parser reads perm_channels)
		return []byte(`{"perm\u005fchannels":` + list() + `}`)
	case 12:
		// one channel id listed under both ports, a value written with an escape
		c := w.chans[w.r.Intn(len(w.chans))]
		esc := strings.Replace(c.Channel, "-", "\\u002d", 1)
		return []byte(fmt.Sprintf(`{"perm_channels":[{"port_id":"transfer","channel_id":%q},{"port_id":"nft-transfer","channel_id":"%s"}]}`, c.Channel, esc))
	case 0:
		return []byte(`{"perm_channels":` + list() + `}`)
	case 1:
		return nil
	case 2:
		return []byte("not json at all")
	case 3:
		return []byte(`{"perm_channels":` + list() + `,"extra":1}`)
	case 4:
		return []byte(`{"Perm_Channels":` + list() + `}`)
	case 5:
		return []byte(`{"perm_channels":"transfer/channel-0"}`)
	case 6:
		return []byte(`{"perm_channels":[{"port_id":"transfer","channel_id":"channel-0","admin":"me"}]}`)
	case 7:
		return []byte(`{"perm_channels":[]}`)
	case 8:
		return []byte(`[` + pc() + `]`)
	case 9:
		return []byte(`{"perm_channels":[{"channel_id":"channel-1"}]}`)
	default:
		return []byte(`{"other":` + list() + `}`)
	}
}

func (w *l1World) genConfig() ophosttypes.BridgeConfig {
	period := w.p.Periods[w.r.Intn(len(w.p.Periods))]
	if w.p.BadCfg > 0 && w.r.Chance(w.p.BadCfg, 100) {
		bad := []time.Duration{0, -1, -time.Hour, -time.Second}
		period = bad[w.r.Intn(len(bad))]
		if period < 0 && w.avoidKnown && core.Known.Listed(w.p.Prop, "negative-finalization-period") {
			period = 0
		}
	}
	cfg := ophosttypes.BridgeConfig{
		Challenger: w.pickUser(), Proposer: w.pickUser(),
		BatchInfo:             ophosttypes.BatchInfo{Submitter: w.pickUser(), ChainType: ophosttypes.BatchInfo_ChainType(1 + w.r.Intn(2))},
		SubmissionInterval:    time.Duration(1+w.r.Intn(100)) * time.Second,
		FinalizationPeriod:    period,
		SubmissionStartHeight: 1,
		OracleEnabled:         w.r.Chance(1, 2),
		Metadata:              w.genMetadata(),
	}
	if w.r.Chance(1, 25) {
		// a half-filled form: several required fields are missing at once
		for _, i := range []int{w.r.Intn(4), w.r.Intn(4)} {
			switch i {
			case 0:
				cfg.BatchInfo.Submitter = ""
			case 1:
				cfg.SubmissionStartHeight = 0
			case 2:
				cfg.SubmissionInterval = 0
			default:
				cfg.BatchInfo.ChainType = ophosttypes.BatchInfo_CHAIN_TYPE_UNSPECIFIED
			}
		}
	}
	return cfg
}

// genAmount picks an amount relative to a reference balance.
func (w *l1World) genAmount(ref *big.Int) math.Int {
	sel := w.r.Weighted([]int{10, 2, 1, 1, 1, 3})
	if sel == 5 {
		// beyond 64 bits when the reference balance allows it
		if ref.BitLen() > 66 {
			// close to the 64-bit limit: two such deposits make an escrow that does not fit 64 bits
			if w.r.Chance(3, 4) {
				return math.NewIntFromUint64(^uint64(0) - w.r.Uint64n(1<<40))
			}
			return math.NewIntFromBigInt(new(big.Int).Add(new(big.Int).Lsh(big.NewInt(1), 65), new(big.Int).SetUint64(w.r.Uint64n(1<<40))))
		}
		sel = 0
	}
	switch sel {
	case 0:
		if ref.Sign() <= 0 {
			return math.NewInt(int64(1 + w.r.Intn(1000)))
		}
		q := new(big.Int).Div(ref, big.NewInt(4))
		if !q.IsUint64() || q.Uint64() == 0 {
			return math.NewInt(int64(1 + w.r.Intn(100)))
		}
		return math.NewIntFromUint64(1 + w.r.Uint64n(q.Uint64()))
	case 1:
		return math.NewIntFromBigInt(new(big.Int).Add(ref, big.NewInt(int64(w.r.Intn(3)))))
	case 2:
		return math.NewInt(1)
	case 3:
		return math.NewIntFromUint64(1 << 63)
	default:
		return math.ZeroInt()
	}
}

func (w *l1World) genOp(spec *modelL1, bc blockCtx) (sdk.Msg, string, string) {
	kinds := []string{"create", "deposit", "propose", "delete", "claim", "updProposer", "updChallenger", "batchInfo", "metadata", "oracleCfg", "params", "recordBatch", "send"}
	wt := make([]int, len(kinds))
	for i, k := range kinds {
		wt[i] = w.p.W[k]
	}
	if len(spec.Bridges) == 0 {
		wt[0] += 50
	}
	if len(spec.Bridges) >= 4 {
		wt[0] = 0
	}
	k := kinds[w.r.Weighted(wt)]
	if w.burstBridge != 0 {
		k = "propose"
		if w.burstTail {
			k = "delete"
		}
	}
	switch k {
	case "create":
		cfg := w.genConfig()
		return &ophosttypes.MsgCreateBridge{Creator: w.pickUser(), Config: cfg}, k, fmt.Sprintf("period=%s prop=%s chal=%s md=%q", cfg.FinalizationPeriod, short(cfg.Proposer), short(cfg.Challenger), string(cfg.Metadata))
	case "deposit":
		id := w.pickBridge(spec, true)
		if spec.Bridges[id] == nil && w.avoidKnown && core.Known.Listed(w.p.Prop, "deposit-to-nonexistent-bridge") {
			id = w.pickBridge(spec, false)
		}
		if id == 0 {
			id = 1
		}
		sender := w.pickUser()
		sa, _ := sdk.AccAddressFromBech32(sender)
		d := w.denoms[w.r.Intn(len(w.denoms))]
		amt := w.genAmount(spec.Bal.get(sa, d))
		if w.r.Chance(1, 25) {
			amt = math.NewInt(-int64(1 + w.r.Intn(1000))) // a negative amount survives the wire encoding
		}
		if amt.IsZero() && w.r.Chance(1, 3) {
			d = []string{"a", "1coin", "bad denom!", ""}[w.r.Intn(4)] // an "account creation" deposit naming something that is not a denom
		}
		to := w.pickUser()
		if w.r.Chance(1, 25) {
			to = ""
		} else if w.r.Chance(1, 5) {
			to = []string{"0x1", "init1malformed", "l2-user-🙂", strings.Repeat("a", 200), " ", "\t", " l2_addr", "l2_addr\u00a0 "}[w.r.Intn(8)]
		}
		var data []byte
		if w.r.Chance(1, 3) {
			data = make([]byte, w.r.Intn(40))
			for i := range data {
				data[i] = byte(w.r.Intn(256))
			}
		}
		return &ophosttypes.MsgInitiateTokenDeposit{Sender: sender, BridgeId: id, To: to, Amount: sdk.Coin{Denom: d, Amount: amt}, Data: data}, k,
			fmt.Sprintf("bridge=%d %s%s from=%s to=%s data=%dB", id, amt, d, short(sender), short(to), len(data))
	case "propose":
		id := w.pickBridge(spec, false)
		b := spec.Bridges[id]
		if b == nil {
			return w.genOp(spec, bc)
		}
		idx := b.NextOutIdx
		switch w.r.Weighted([]int{12, 1, 1, 1}) {
		case 1:
			idx++
		case 2:
			if idx > 1 {
				idx--
			}
		case 3:
			idx = 0
		}
		var prevBlk uint64
		if o := b.Outputs[b.NextOutIdx-1]; o != nil {
			prevBlk = o.L2Block
		}
		l2 := prevBlk + 1 + uint64(w.r.Intn(10))
		if w.burstBridge == 0 && w.r.Chance(1, 40) {
			l2 = ^uint64(0) - uint64(w.r.Intn(2)) // the greatest L2 block numbers: nothing can follow the last one
		}
		if b.NextOutIdx == 1 && w.r.Chance(1, 6) {
			l2 = 0 // an output committing to the L2 genesis block
		}
		switch w.r.Weighted([]int{12, 1, 1}) {
		case 1:
			l2 = prevBlk
		case 2:
			if prevBlk > 0 {
				l2 = prevBlk - 1
			}
		}
		root, desc := w.genRoot(spec, b)
		if o := b.Outputs[b.NextOutIdx-1]; o != nil && w.r.Chance(1, 12) {
			// a proposer-bot retry: exactly the latest output again
			idx, l2, root, desc = b.NextOutIdx-1, o.L2Block, o.Root, "RESEND-latest"
		}
		signer := w.pickSigner(b.Cfg.Proposer)
		if w.burstBridge != 0 && w.r.Chance(9, 10) {
			// catching up: the next index, a higher L2 block, the proposer itself
			idx, signer = b.NextOutIdx, b.Cfg.Proposer
			if l2 <= prevBlk {
				l2 = prevBlk + 1
			}
		}
		return &ophosttypes.MsgProposeOutput{Proposer: signer, BridgeId: id, OutputIndex: idx, L2BlockNumber: l2, OutputRoot: root[:]}, k,
			fmt.Sprintf("bridge=%d idx=%d l2block=%d by=%s %s", id, idx, l2, short(signer), desc)
	case "delete":
		id := w.pickBridge(spec, false)
		b := spec.Bridges[id]
		if b == nil {
			return w.genOp(spec, bc)
		}
		idx := uint64(1)
		if b.NextOutIdx > 1 {
			idx = 1 + uint64(w.r.Intn(int(b.NextOutIdx)))
			if w.r.Chance(1, 2) {
				idx = b.NextOutIdx - 1 - uint64(w.r.Intn(minInt(2, int(b.NextOutIdx-1))))
			}
		}
		if w.r.Chance(1, 20) {
			idx = 0
		}
		signer := w.pickSigner(b.Cfg.Challenger, b.Cfg.Proposer, spec.Gov)
		if w.burstTail && b.NextOutIdx > 1 {
			// the challenger rejects a large part of what was just proposed
			idx, signer = 1+uint64(w.r.Intn(int(b.NextOutIdx-1))), b.Cfg.Challenger
		}
		return &ophosttypes.MsgDeleteOutput{Challenger: signer, BridgeId: id, OutputIndex: idx}, k, fmt.Sprintf("bridge=%d idx=%d by=%s", id, idx, short(signer))
	case "claim":
		msg, desc := w.genClaim(spec, bc)
		if msg == nil {
			return w.genOp(spec, bc)
		}
		return msg, k, desc
	case "updProposer":
		id := w.pickBridge(spec, false)
		b := spec.Bridges[id]
		if b == nil {
			return w.genOp(spec, bc)
		}
		signer := w.pickSigner(b.Cfg.Proposer, spec.Gov)
		nw := w.pickUser()
		return &ophosttypes.MsgUpdateProposer{Authority: signer, BridgeId: id, NewProposer: nw}, k, fmt.Sprintf("bridge=%d new=%s by=%s", id, short(nw), short(signer))
	case "updChallenger":
		id := w.pickBridge(spec, false)
		b := spec.Bridges[id]
		if b == nil {
			return w.genOp(spec, bc)
		}
		signer := w.pickSigner(b.Cfg.Challenger, spec.Gov)
		nw := w.pickUser()
		return &ophosttypes.MsgUpdateChallenger{Authority: signer, BridgeId: id, Challenger: nw}, k, fmt.Sprintf("bridge=%d new=%s by=%s", id, short(nw), short(signer))
	case "batchInfo":
		id := w.pickBridge(spec, false)
		b := spec.Bridges[id]
		if b == nil {
			return w.genOp(spec, bc)
		}
		signer := w.pickSigner(b.Cfg.Proposer, spec.Gov)
		bi := ophosttypes.BatchInfo{Submitter: w.pickUser(), ChainType: ophosttypes.BatchInfo_ChainType(1 + w.r.Intn(2))}
		return &ophosttypes.MsgUpdateBatchInfo{Authority: signer, BridgeId: id, NewBatchInfo: bi}, k, fmt.Sprintf("bridge=%d by=%s", id, short(signer))
	case "metadata":
		id := w.pickBridge(spec, false)
		b := spec.Bridges[id]
		if b == nil {
			return w.genOp(spec, bc)
		}
		signer := w.pickSigner(b.Cfg.Proposer, spec.Gov)
		md := w.genMetadata()
		if w.r.Chance(1, 5) {
			// the operator's tooling re-submits the metadata the bridge already has, byte for byte
			md = append([]byte{}, b.Cfg.Metadata...)
		}
		return &ophosttypes.MsgUpdateMetadata{Authority: signer, BridgeId: id, Metadata: md}, k, fmt.Sprintf("bridge=%d by=%s md=%q", id, short(signer), string(md))
	case "oracleCfg":
		id := w.pickBridge(spec, false)
		b := spec.Bridges[id]
		if b == nil {
			return w.genOp(spec, bc)
		}
		signer := w.pickSigner(b.Cfg.Proposer, spec.Gov)
		return &ophosttypes.MsgUpdateOracleConfig{Authority: signer, BridgeId: id, OracleEnabled: w.r.Chance(1, 2)}, k, fmt.Sprintf("bridge=%d by=%s", id, short(signer))
	case "params":
		signer := w.pickSigner(spec.Gov)
		fee := sdk.Coins{}
		if w.r.Chance(1, 2) {
			fee = sdk.NewCoins(sdk.NewCoin(w.denoms[0], math.NewInt(int64(1+w.r.Intn(500)))))
		}
		return &ophosttypes.MsgUpdateParams{Authority: signer, Params: &ophosttypes.Params{RegistrationFee: fee}}, k, fmt.Sprintf("fee=%s by=%s", fee, short(signer))
	case "recordBatch":
		id := w.pickBridge(spec, true)
		if id == 0 {
			id = 1
		}
		return &ophosttypes.MsgRecordBatch{Submitter: w.pickUser(), BridgeId: id, BatchBytes: []byte{1, 2, 3}}, k, fmt.Sprintf("bridge=%d", id)
	default: // send
		from := w.pickUser()
		fa, _ := sdk.AccAddressFromBech32(from)
		var to string
		ids := spec.bridgeIDs()
		if w.r.Chance(1, 8) {
			// the escrow address of a bridge that does not exist yet (anyone can compute and fund it)
			to = sdk.AccAddress(prover.Escrow(spec.NextBridgeID + uint64(w.r.Intn(2)))).String()
		} else if len(ids) > 0 && w.r.Chance(1, 2) {
			to = sdk.AccAddress(prover.Escrow(ids[w.r.Intn(len(ids))])).String()
		} else {
			to = w.pickUser()
		}
		d := w.denoms[w.r.Intn(len(w.denoms))]
		amt := w.genAmount(spec.Bal.get(fa, d))
		if !amt.IsPositive() {
			amt = math.NewInt(1)
		}
		return &banktypes.MsgSend{FromAddress: from, ToAddress: to, Amount: sdk.NewCoins(sdk.NewCoin(d, amt))}, "send", fmt.Sprintf("%s%s %s->%s", amt, d, short(from), short(to))
	}
}

func minInt(a, b int) int {
	if a < b {
		return a
	}
	return b
}

func short(s string) string {
	if len(s) > 14 {
		return s[:8] + ".." + s[len(s)-4:]
	}
	return s
}

// genRoot fabricates what the simulated L2 + executor would commit to: a tree
// over new (and possibly earlier) withdrawals of this bridge.
func (w *l1World) genRoot(spec *modelL1, b *mBridge) (prover.Hash, string) {
	if !w.bigNext && w.r.Chance(1, 10) {
		return w.randHash(), "junk-root"
	}
	u := w.univ[b.ID]
	var leaves []int
	if len(u) > 0 && w.r.Chance(1, 2) {
		// cumulative tree: carry earlier leaves again
		for i := range u {
			if w.r.Chance(2, 3) {
				leaves = append(leaves, i)
			}
		}
	}
	nNew := w.r.Intn(6)
	if w.r.Chance(1, 8) {
		nNew = 8 + w.r.Intn(10)
	}
	big := w.bigNext
	if big {
		leaves, nNew = nil, 105+w.r.Intn(60)
	}
	for i := 0; i < nNew; i++ {
		w.wseq[b.ID]++
		d := w.denoms[w.r.Intn(len(w.denoms))]
		amt := w.genAmount(spec.Bal.get(prover.Escrow(b.ID), d))
		if !amt.IsPositive() || !amt.IsUint64() || big {
			amt = math.NewInt(1)
		}
		wd := withdrawal{Seq: w.wseq[b.ID], From: fmt.Sprintf("l2user%d", w.r.Intn(5)), To: w.pickUser(), Denom: d, Amount: amt.Uint64()}
		if w.r.Chance(1, 12) {
			// the L2 user withdraws to an L1 module account (a valid address like any other for the bridge's payout)
			wd.To = authtypes.NewModuleAddress([]string{authtypes.FeeCollectorName, node.DistrModule, "gov"}[w.r.Intn(3)]).String()
		}
		if w.r.Chance(1, 10) && len(u) > 0 && !big {
			// same sender/recipient/denom/amount as an earlier one, different sequence
			o := u[w.r.Intn(len(u))]
			wd.From, wd.To, wd.Denom, wd.Amount = o.From, o.To, o.Denom, o.Amount
		}
		u = append(u[:len(u):len(u)], wd)
		leaves = append(leaves, len(u)-1)
	}
	w.univ[b.ID] = u
	var hs []prover.Hash
	for _, i := range leaves {
		hs = append(hs, u[i].leaf(b.ID))
	}
	dup := w.r.Chance(1, 2)
	t := prover.Build(hs, dup)
	w.liftTree(t)
	c := &commitment{Version: []byte{0, 1, 0, 1, 2, 3, 0x7f, 0xff}[w.r.Intn(8)], Storage: t.Root(), BlockHash: w.randHash(), Tree: t, Leaves: leaves}
	root := prover.OutputRoot(c.Version, c.Storage, c.BlockHash)
	w.commits[root] = c
	return root, fmt.Sprintf("tree(leaves=%d,dup=%v)", len(leaves), dup)
}

func hashes(hs []prover.Hash) [][]byte {
	out := make([][]byte, len(hs))
	for i := range hs {
		out[i] = append([]byte{}, hs[i][:]...)
	}
	return out
}

// bigClaim: a relayer catching up.  One output commits to well over a hundred small withdrawals; once it is
// final they are all claimed in one block (sets longer than any page size or batch constant in the code).
type bigClaim struct {
	Bridge, Idx uint64
	Root        prover.Hash
}

// genClaim builds an honest claim and, for the Byzantine share, perturbs it.
func (w *l1World) genClaim(spec *modelL1, bc blockCtx) (sdk.Msg, string) {
	var cands [][2]uint64
	for _, id := range spec.bridgeIDs() {
		if id == w.avoidBridge {
			continue
		}
		b := spec.Bridges[id]
		for idx := uint64(1); idx < b.NextOutIdx; idx++ {
			if o := b.Outputs[idx]; o != nil && w.commits[o.Root] != nil && len(w.commits[o.Root].Leaves) > 0 {
				cands = append(cands, [2]uint64{id, idx})
			}
		}
	}
	if len(cands) == 0 {
		return nil, ""
	}
	// prefer outputs that are (or may be) final
	var pref [][2]uint64
	for _, c := range cands {
		if spec.fin(spec.Bridges[c[0]], c[1], bc.Height, bc.Time) != triNo {
			pref = append(pref, c)
		}
	}
	pick := cands[w.r.Intn(len(cands))]
	if len(pref) > 0 && w.r.Chance(3, 4) {
		pick = pref[w.r.Intn(len(pref))]
	}
	b := spec.Bridges[pick[0]]
	o := b.Outputs[pick[1]]
	c := w.commits[o.Root]
	pos := w.r.Intn(len(c.Leaves))
	// prefer not-yet-claimed leaves half of the time
	if w.r.Chance(1, 2) {
		for try := 0; try < 4; try++ {
			if !b.Claims[w.univ[b.ID][c.Leaves[pos]].leaf(b.ID)] {
				break
			}
			pos = w.r.Intn(len(c.Leaves))
		}
	}
	wd := w.univ[b.ID][c.Leaves[pos]]
	msg := &ophosttypes.MsgFinalizeTokenWithdrawal{
		Sender: w.pickUser(), BridgeId: b.ID, OutputIndex: pick[1], Sequence: wd.Seq, From: wd.From, To: wd.To,
		Amount: sdk.Coin{Denom: wd.Denom, Amount: math.NewIntFromUint64(wd.Amount)}, Version: []byte{c.Version}, StorageRoot: append([]byte{}, c.Storage[:]...),
		LastBlockHash: append([]byte{}, c.BlockHash[:]...), WithdrawalProofs: hashes(c.Tree.Proof(pos)),
	}
	desc := fmt.Sprintf("bridge=%d out=%d seq=%d %d%s to=%s proof=%d", b.ID, pick[1], wd.Seq, wd.Amount, wd.Denom, short(wd.To), len(msg.WithdrawalProofs))
	if !w.r.Chance(w.p.Byz, 100) {
		return msg, desc
	}
	w.r.Probe("claim.perturbed")
	flip := func(bz []byte) {
		if len(bz) > 0 {
			i := w.r.Intn(len(bz))
			bz[i] ^= 1 << uint(w.r.Intn(8))
		}
	}
	np := 1
	if w.r.Chance(1, 5) {
		np = 2
	}
	var tags []string
	for k := 0; k < np; k++ {
		pick := w.r.Intn(25)
		if spec.Bal.get(prover.Escrow(b.ID), msg.Amount.Denom).BitLen() > 64 && w.r.Chance(1, 3) {
			pick = 10 // the escrow could afford amount + 2^64: aim there
		}
		switch pick {
		case 24:
			// an all-zero element somewhere in the proof ("padding" of a fixed-height prover)
			i := w.r.Intn(len(msg.WithdrawalProofs) + 1)
			ps := append([][]byte{}, msg.WithdrawalProofs[:i]...)
			ps = append(ps, make([]byte, 32))
			msg.WithdrawalProofs = append(ps, msg.WithdrawalProofs[i:]...)
			tags = append(tags, "zero-proof-element")
		case 23:
			// the bridge's own L2 name of the token instead of the L1 denom
			msg.Amount.Denom = prover.L2Denom(b.ID, msg.Amount.Denom)
			tags = append(tags, "l2-denom-for-l1-denom")
		case 21:
			// a fixed-size field one or more bytes too long / one byte short (the commitment is over exactly 1+32+32 bytes)
			ext := func(bz []byte) []byte {
				if w.r.Chance(1, 4) && len(bz) > 0 {
					return bz[:len(bz)-1]
				}
				for k := 1 + w.r.Intn(8); k > 0; k-- {
					bz = append(bz, byte(w.r.Intn(256)))
				}
				return bz
			}
			switch w.r.Intn(3) {
			case 0:
				msg.LastBlockHash = ext(append([]byte{}, msg.LastBlockHash...))
			case 1:
				msg.StorageRoot = ext(append([]byte{}, msg.StorageRoot...))
			default:
				msg.Version = ext(append([]byte{}, msg.Version...))
			}
			tags = append(tags, "resize-fixed-field")
		case 22:
			// the same string in another letter case (bech32 is case-insensitive as an address, the leaf is not)
			recase := func(s string) string {
				if w.r.Chance(1, 2) {
					return strings.ToUpper(s)
				}
				bz := []byte(s)
				for try := 0; try < 8 && len(bz) > 0; try++ {
					i := w.r.Intn(len(bz))
					if bz[i] >= 'a' && bz[i] <= 'z' {
						bz[i] -= 32
						break
					}
				}
				return string(bz)
			}
			switch w.r.Intn(3) {
			case 0:
				msg.From = recase(msg.From)
			case 1:
				msg.To = recase(msg.To)
			default:
				msg.Amount.Denom = recase(msg.Amount.Denom)
			}
			tags = append(tags, "other-letter-case")
		case 20:
			// a withdrawal of some other commitment the proposer once built for this bridge (e.g. one whose
			// proposal was rejected or rolled back), offered against the current output
			var roots []prover.Hash
			for rt, cm := range w.commits {
				if len(cm.Leaves) > 0 && rt != o.Root {
					roots = append(roots, rt)
				}
			}
			sort.Slice(roots, func(i, j int) bool { return bytes.Compare(roots[i][:], roots[j][:]) < 0 })
			if len(roots) > 0 {
				cm := w.commits[roots[w.r.Intn(len(roots))]]
				p2 := w.r.Intn(len(cm.Leaves))
				if cm.Leaves[p2] < len(w.univ[b.ID]) {
					o2 := w.univ[b.ID][cm.Leaves[p2]]
					msg.Sequence, msg.From, msg.To, msg.Amount = o2.Seq, o2.From, o2.To, sdk.Coin{Denom: o2.Denom, Amount: math.NewIntFromUint64(o2.Amount)}
					msg.Version, msg.StorageRoot, msg.LastBlockHash = []byte{cm.Version}, append([]byte{}, cm.Storage[:]...), append([]byte{}, cm.BlockHash[:]...)
					msg.WithdrawalProofs = hashes(cm.Tree.Proof(p2))
				}
			}
			tags = append(tags, "other-commitment")
		case 0:
			flip(msg.StorageRoot)
			tags = append(tags, "flip-storage-root")
		case 1:
			flip(msg.LastBlockHash)
			tags = append(tags, "flip-block-hash")
		case 2:
			if len(msg.Version) > 0 {
				msg.Version = []byte{msg.Version[0] ^ byte(1+w.r.Intn(255))}
			}
			tags = append(tags, "other-version")
		case 3:
			if len(msg.WithdrawalProofs) > 0 {
				flip(msg.WithdrawalProofs[w.r.Intn(len(msg.WithdrawalProofs))])
				tags = append(tags, "flip-proof")
			} else {
				msg.WithdrawalProofs = hashes([]prover.Hash{w.randHash()})
				tags = append(tags, "extend-empty-proof")
			}
		case 4:
			msg.From, msg.To = msg.To, msg.From
			tags = append(tags, "swap-from-to")
		case 5:
			ids := spec.bridgeIDs()
			msg.BridgeId = ids[w.r.Intn(len(ids))]
			tags = append(tags, "other-bridge-id")
		case 6:
			msg.OutputIndex = uint64(w.r.Intn(int(b.NextOutIdx) + 1)) // 0 (nothing is ever stored there) .. next
			tags = append(tags, "other-output-index")
		case 7:
			msg.Amount.Amount = msg.Amount.Amount.AddRaw(1)
			tags = append(tags, "amount+1")
		case 8:
			if msg.Amount.Amount.GT(math.OneInt()) {
				msg.Amount.Amount = msg.Amount.Amount.SubRaw(1)
			}
			tags = append(tags, "amount-1")
		case 9:
			msg.Amount.Amount = msg.Amount.Amount.MulRaw(2)
			tags = append(tags, "amount*2")
		case 10:
			msg.Amount.Amount = msg.Amount.Amount.Add(math.NewIntFromBigInt(new(big.Int).Lsh(big.NewInt(1), 64)))
			tags = append(tags, "amount+2^64")
		case 11:
			msg.Sequence = 1 + uint64(w.r.Intn(int(w.wseq[b.ID])+1))
			tags = append(tags, "other-sequence")
		case 12:
			msg.Amount.Denom = w.denoms[w.r.Intn(len(w.denoms))]
			if w.r.Chance(1, 3) {
				msg.Amount.Denom = prover.L2Denom(b.ID, wd.Denom)
			}
			tags = append(tags, "other-denom")
		case 13:
			if len(msg.WithdrawalProofs) > 0 {
				msg.WithdrawalProofs = msg.WithdrawalProofs[:len(msg.WithdrawalProofs)-1]
			}
			tags = append(tags, "truncate-proof")
		case 14:
			msg.WithdrawalProofs = append(msg.WithdrawalProofs, hashes([]prover.Hash{w.randHash()})...)
			tags = append(tags, "extend-proof")
		case 15:
			if n := len(msg.WithdrawalProofs); n > 1 {
				i, j := w.r.Intn(n), w.r.Intn(n)
				msg.WithdrawalProofs[i], msg.WithdrawalProofs[j] = msg.WithdrawalProofs[j], msg.WithdrawalProofs[i]
			}
			tags = append(tags, "permute-proof")
		case 16:
			// offer an inner node as the leaf's sibling / replace a sibling by the leaf itself
			if len(c.Tree.Levels) > 1 && len(msg.WithdrawalProofs) > 0 {
				lvl := c.Tree.Levels[1]
				msg.WithdrawalProofs[0] = append([]byte{}, lvl[w.r.Intn(len(lvl))][:]...)
			}
			tags = append(tags, "inner-node-as-sibling")
		case 17:
			if len(msg.WithdrawalProofs) > 0 {
				lf := wd.leaf(b.ID)
				msg.WithdrawalProofs[0] = append([]byte{}, lf[:]...)
			}
			tags = append(tags, "leaf-as-sibling")
		case 18:
			msg.WithdrawalProofs = nil
			tags = append(tags, "zero-length-proof")
		case 19:
			// another committed withdrawal's fields with this leaf's proof
			u := w.univ[b.ID]
			o2 := u[w.r.Intn(len(u))]
			msg.Sequence, msg.From, msg.To, msg.Amount = o2.Seq, o2.From, o2.To, sdk.Coin{Denom: o2.Denom, Amount: math.NewIntFromUint64(o2.Amount)}
			tags = append(tags, "other-withdrawal-fields")
		}
	}
	return msg, desc + " PERTURBED[" + strings.Join(tags, ",") + "]"
}

// ---------------------------------------------------------------------------

func (w *l1World) restart(phase string) {
	w.r.Fault("crash." + phase)
	w.r.Logf("CRASH L1 node (%s) and restart from durable state", phase)
	w.n = node.NewL1(w.db, nil)
}

func toTxRes(enc node.Encoding, r *abci.ExecTxResult) *txRes {
	return &txRes{OK: r.Code == 0, Log: r.Log, Events: r.Events, Resps: node.DecodeResponses(enc, r.Data), Gas: r.GasUsed}
}

func sameResults(a, b *abci.ResponseFinalizeBlock) string {
	if len(a.TxResults) != len(b.TxResults) {
		return "tx result count differs"
	}
	for i := range a.TxResults {
		x, y := a.TxResults[i], b.TxResults[i]
		// Log is not part of consensus (panic logs carry stack traces with addresses)
		if x.Code != y.Code || x.Codespace != y.Codespace || !bytes.Equal(x.Data, y.Data) || x.GasUsed != y.GasUsed || x.GasWanted != y.GasWanted || len(x.Events) != len(y.Events) {
			return fmt.Sprintf("tx %d result differs (code %d vs %d, gas %d vs %d, log %q vs %q)", i, x.Code, y.Code, x.GasUsed, y.GasUsed, firstLine(x.Log), firstLine(y.Log))
		}
		for j := range x.Events {
			if x.Events[j].String() != y.Events[j].String() {
				return fmt.Sprintf("tx %d event %d differs", i, j)
			}
		}
	}
	if !bytes.Equal(a.AppHash, b.AppHash) {
		return "app hash differs"
	}
	return ""
}

// pickTime chooses the next block time: non-decreasing, with boundary targeting.
func (w *l1World) pickTime() time.Time {
	now := w.now
	switch w.r.Weighted([]int{3, 1, 2, 2, 3, 2, 6}) {
	case 0:
		return now.Add(time.Duration(1+w.r.Intn(5)) * time.Second)
	case 1:
		return now // zero advance
	case 2:
		return now.Add(time.Duration(1 + w.r.Intn(999_999_999)))
	case 3:
		return now.Add(time.Second + time.Duration(w.r.Intn(3)-1))
	case 4:
		return now.Add(time.Duration(1+w.r.Intn(48)) * time.Hour)
	case 5:
		return now.Add(1)
	default:
		// jump to just before / at / after the nearest finality boundary
		var best time.Time
		found := false
		for _, id := range w.m.bridgeIDs() {
			b := w.m.Bridges[id]
			for idx := uint64(1); idx < b.NextOutIdx; idx++ {
				o := b.Outputs[idx]
				if o == nil || idx <= b.EverFinal || b.Cfg.FinalizationPeriod > 400*24*time.Hour || b.Cfg.FinalizationPeriod < 0 {
					continue
				}
				dl := o.L1Time.Add(b.Cfg.FinalizationPeriod)
				if dl.Add(2 * time.Second).Before(now) {
					continue
				}
				if !found || dl.Before(best) || w.r.Chance(1, 4) {
					best, found = dl, true
				}
			}
		}
		if !found {
			return now.Add(time.Duration(1+w.r.Intn(5)) * time.Second)
		}
		deltas := []time.Duration{-time.Second - 1, -time.Second, -time.Second + 1, -500 * time.Millisecond, -1, 0, 1, 500 * time.Millisecond, time.Second, 2 * time.Second}
		t := best.Add(deltas[w.r.Intn(len(deltas))])
		if t.Before(now) {
			return now
		}
		w.r.Probe("time.boundary-targeted")
		return t
	}
}

func (w *l1World) genStubOps() []node.StubOp {
	if !w.hook {
		return nil
	}
	var ops []node.StubOp
	n := w.r.Weighted([]int{5, 3, 1})
	for i := 0; i < n; i++ {
		c := w.chans[w.r.Intn(len(w.chans))]
		switch w.r.Weighted([]int{5, 2, 1}) {
		case 0:
			ops = append(ops, node.StubOp{Kind: "open", Port: c.Port, Channel: c.Channel})
		case 1:
			ops = append(ops, node.StubOp{Kind: "send", Port: c.Port, Channel: c.Channel})
		case 2:
			ops = append(ops, node.StubOp{Kind: "setadmin", Port: c.Port, Channel: c.Channel, Admin: node.Addr("foreign-admin")})
		}
	}
	return ops
}

func (w *l1World) applyStubOps(m *modelL1, ops []node.StubOp) {
	for _, op := range ops {
		k := op.Port + "/" + op.Channel
		switch op.Kind {
		case "open":
			if _, ok := m.ChanSeq[k]; !ok {
				m.ChanSeq[k] = 1
			}
		case "send":
			if _, ok := m.ChanSeq[k]; ok {
				m.ChanSeq[k]++
			}
		case "setadmin":
			m.Admin[k] = string(op.Admin)
		}
	}
}

func completenessOwners(kind string) []string {
	switch kind {
	case "claim":
		return ownClaimOK
	case "propose":
		return []string{"C11", "C12"}
	case "delete":
		return []string{"C11", "C12", "C05"}
	case "deposit":
		return []string{"C10", "C01"}
	case "create":
		return []string{"C19", "C12", "C10"}
	case "metadata":
		return []string{"C12", "C19"}
	case "updChallenger":
		return []string{"C12", "C19"}
	case "send":
		return []string{"C01"}
	default:
		return []string{"C12"}
	}
}

// runBlock generates, executes and checks one block.
func (w *l1World) runBlock() *core.Violation {
	r := w.r
	if w.p.Reimport > 0 && r.Chance(w.p.Reimport, 100) {
		if v := w.reimport(); v != nil {
			return v
		}
	}
	T := w.pickTime()
	bc := blockCtx{Height: w.n.Height() + 1, Time: T}
	stub := w.genStubOps()
	spec := w.m.clone()
	w.applyStubOps(spec, stub)
	ntx := 1 + r.Intn(w.p.MaxTx)
	if r.Chance(1, 10) {
		ntx = 0
	}
	w.burstBridge = 0
	if ids := spec.bridgeIDs(); w.p.W["burst"] > 0 && len(ids) > 0 && r.Chance(w.p.W["burst"], 1000) {
		// a proposer catching up: one block full of output proposals (logs far longer than any constant in the code)
		w.burstBridge = ids[r.Intn(len(ids))]
		ntx = 90 + r.Intn(70)
		r.Probe("propose.burst")
	}
	defer func() { w.burstBridge, w.burstTail = 0, false }()
	var bigTxs []pendingTx
	if w.p.W["claimburst"] > 0 && w.burstBridge == 0 {
		switch {
		case w.bigClaim == nil && r.Chance(w.p.W["claimburst"], 1000):
			// step 1: the proposer of some bridge commits to a large fresh withdrawal set
			if ids := spec.bridgeIDs(); len(ids) > 0 {
				b := spec.Bridges[ids[r.Intn(len(ids))]]
				var prevBlk uint64
				if o := b.Outputs[b.NextOutIdx-1]; o != nil {
					prevBlk = o.L2Block
				}
				if prevBlk < ^uint64(0)-1 {
					w.bigNext = true
					root, desc := w.genRoot(spec, b)
					w.bigNext = false
					msg := &ophosttypes.MsgProposeOutput{Proposer: b.Cfg.Proposer, BridgeId: b.ID, OutputIndex: b.NextOutIdx, L2BlockNumber: prevBlk + 1, OutputRoot: root[:]}
					bigTxs = append(bigTxs, pendingTx{Msg: msg, Kind: "propose", Desc: fmt.Sprintf("bridge=%d idx=%d l2block=%d LARGE %s", b.ID, b.NextOutIdx, prevBlk+1, desc)})
					w.bigClaim = &bigClaim{Bridge: b.ID, Idx: b.NextOutIdx, Root: root}
					r.Probe("claim.burst-committed")
				}
			}
		case w.bigClaim != nil:
			// step 2: once that output is final (and still there), every leaf is claimed in one block
			b := spec.Bridges[w.bigClaim.Bridge]
			var o *mOutput
			if b != nil {
				o = b.Outputs[w.bigClaim.Idx]
			}
			switch {
			case o == nil || o.Root != w.bigClaim.Root:
				w.bigClaim = nil // deleted or never accepted
			case spec.fin(b, w.bigClaim.Idx, bc.Height, bc.Time) == triYes:
				c := w.commits[o.Root]
				for pos := range c.Leaves {
					wd := w.univ[b.ID][c.Leaves[pos]]
					msg := &ophosttypes.MsgFinalizeTokenWithdrawal{
						Sender: w.pickUser(), BridgeId: b.ID, OutputIndex: w.bigClaim.Idx, Sequence: wd.Seq, From: wd.From, To: wd.To,
						Amount: sdk.Coin{Denom: wd.Denom, Amount: math.NewIntFromUint64(wd.Amount)}, Version: []byte{c.Version}, StorageRoot: append([]byte{}, c.Storage[:]...),
						LastBlockHash: append([]byte{}, c.BlockHash[:]...), WithdrawalProofs: hashes(c.Tree.Proof(pos)),
					}
					bigTxs = append(bigTxs, pendingTx{Msg: msg, Kind: "claim", Desc: fmt.Sprintf("bridge=%d out=%d seq=%d %d%s (catch-up)", b.ID, w.bigClaim.Idx, wd.Seq, wd.Amount, wd.Denom)})
				}
				w.bigClaim = nil
				r.Probe("claim.burst-claimed")
			}
		}
	}
	var txs []pendingTx
	for i := 0; i < ntx; i++ {
		w.burstTail = w.burstBridge != 0 && i == ntx-1 && r.Chance(1, 2)
		msg, kind, desc := w.genOp(spec, bc)
		pt := pendingTx{Msg: msg, Kind: kind, Desc: desc}
		if w.p.W["multi"] > 0 && r.Chance(w.p.W["multi"], 100) {
			// an atomic multi-message transaction: all or nothing
			pt.Msgs = []sdk.Msg{msg}
			sc := spec.clone()
			if so := sc.step(msg, bc); so.P.Kind != mustFail && so.OnSuccess != nil {
				so.OnSuccess(&txRes{OK: true})
			}
			n := 1 + r.Intn(2)
			for k := 0; k < n; k++ {
				m2, k2, d2 := w.genOp(sc, bc)
				pt.Msgs = append(pt.Msgs, m2)
				pt.Desc += " ++ " + k2 + "{" + d2 + "}"
				if so := sc.step(m2, bc); so.P.Kind != mustFail && so.OnSuccess != nil {
					so.OnSuccess(&txRes{OK: true})
				}
			}
			pt.Kind = "multi"
		}
		opts := node.TxOpts{}
		if w.p.GasAbort > 0 && r.Chance(w.p.GasAbort, 100) {
			opts.Gas = uint64(5_000 + r.Intn(120_000))
			pt.LowGas = true
		}
		if w.p.DepFault > 0 && r.Chance(w.p.DepFault, 100) {
			site := []string{"bank", "bank", "pool", "perm"}[r.Intn(4)]
			kindF := []string{"err", "panic"}[r.Intn(2)]
			pt.Fault = fmt.Sprintf("fault:%s:%d:%s", site, r.Intn(3), kindF)
			opts.Memo = pt.Fault
		}
		bmsgs := []sdk.Msg{msg}
		if len(pt.Msgs) > 1 {
			bmsgs = pt.Msgs
		}
		bz, err := node.BuildTx(w.enc, bmsgs, opts)
		if err != nil {
			panic(fmt.Sprintf("BuildTx: %v", err))
		}
		pt.Bytes = bz
		txs = append(txs, pt)
		if !pt.LowGas && pt.Fault == "" {
			w.specApply(spec, bmsgs, bc)
		}
	}
	for _, pt := range bigTxs {
		bz, err := node.BuildTx(w.enc, []sdk.Msg{pt.Msg}, node.TxOpts{})
		if err != nil {
			panic(fmt.Sprintf("BuildTx: %v", err))
		}
		pt.Bytes = bz
		txs = append(txs, pt)
		w.specApply(spec, []sdk.Msg{pt.Msg}, bc)
	}
	// crash plan
	crash := ""
	if w.p.Crash > 0 && r.Chance(w.p.Crash, 100) {
		crash = []string{"before-finalize", "after-finalize-before-commit", "after-commit", "aborted-optimistic-execution"}[r.Intn(4)]
	}
	return w.execBlock(bc, txs, stub, crash)
}

// execBlock executes a prepared block, runs the lock-step model over its
// results and compares the complete state.
func (w *l1World) execBlock(bc blockCtx, txs []pendingTx, stub []node.StubOp, crash string) *core.Violation {
	r := w.r
	T := bc.Time
	w.lastRes = nil
	raw := make([][]byte, len(txs))
	for i := range txs {
		raw[i] = txs[i].Bytes
	}
	r.Step("block", "L1 h=%d t=+%s txs=%d stub=%d crash=%q", bc.Height, T.Sub(simEpoch), len(txs), len(stub), crash)
	if crash == "before-finalize" {
		w.restart(crash)
	}
	w.sideTraffic("before-finalize", raw)
	w.n.Fault.ResetLog()
	var res *abci.ResponseFinalizeBlock
	var err error
	if crash == "aborted-optimistic-execution" {
		r.Fault("aborted-optimistic-execution")
		r.Logf("block %d is first executed optimistically, that execution is aborted and discarded, then it is executed again", bc.Height)
		res, err = w.n.FinalizeAfterAbortedOE(T, raw, stub, w.altProposal(raw))
	} else {
		res, err = w.n.Finalize(T, raw, stub)
	}
	if err != nil {
		return w.fail(mismatch{"block.finalize-error", "finalize-block-error", []string{w.p.Prop}, fmt.Sprintf("FinalizeBlock failed: %v", err)})
	}
	if n := len(w.n.Fault.TxFired); n > len(txs) {
		w.n.Fault.TxFired = w.n.Fault.TxFired[n-len(txs):]
		w.n.Fault.TxCalls = w.n.Fault.TxCalls[n-len(txs):]
	}
	fired := append([]bool{}, w.n.Fault.TxFired...)
	if crash == "after-finalize-before-commit" {
		w.restart(crash)
		w.n.Fault.ResetLog()
		res2, err := w.n.Finalize(T, raw, stub)
		if err != nil {
			return w.fail(mismatch{"block.finalize-error", "finalize-block-error-on-replay", []string{w.p.Prop}, fmt.Sprintf("FinalizeBlock replay failed: %v", err)})
		}
		if d := sameResults(res, res2); d != "" {
			return w.fail(mismatch{"crash.replay-diverged", "block-replay-diverged", []string{w.p.Prop, "C18"}, "replaying the uncommitted block after a crash gave a different result: " + d})
		}
		res = res2
	}
	w.sideTraffic("before-commit", raw)
	w.n.Commit()
	w.r.Witness(w.n.App.LastCommitID().Hash)
	if crash == "after-commit" {
		w.restart(crash)
	}
	w.sideTraffic("after-commit", raw)
	for _, t := range raw {
		if len(w.recent) < 24 {
			w.recent = append(w.recent, t)
		} else {
			w.recent[r.Intn(24)] = t
		}
	}
	if len(w.replicas) > 0 {
		if v := w.runReplicas(bc, raw, stub, res); v != nil {
			return v
		}
	}
	r.SimNS += int64(T.Sub(w.now))
	w.now = T
	r.Stat("blocks", 1)
	r.Stat("txs", len(txs))

	// lock-step model
	w.lastRes = res
	w.applyStubOps(w.m, stub)
	anySuccess := false
	for i, pt := range txs {
		tr := toTxRes(w.enc, res.TxResults[i])
		if len(pt.Msgs) > 1 {
			ffm := i < len(fired) && fired[i]
			status := "ok"
			if !tr.OK {
				status = "FAIL(" + firstLine(tr.Log) + ")"
			}
			r.Step("tx.multi", "%s %s%s -> %s", pt.Desc, pt.Fault, lowGasTag(pt.LowGas), status)
			if v := w.applyMulti(pt, tr, bc, ffm); v != nil {
				return v
			}
			if tr.OK {
				anySuccess = true
				w.succ["multi"]++
			}
			continue
		}
		so := w.m.step(pt.Msg, bc)
		ff := i < len(fired) && fired[i]
		if ff {
			r.Fault("dependency-fault." + strings.Split(pt.Fault, ":")[1] + "." + strings.Split(pt.Fault, ":")[3])
		}
		oog := strings.Contains(tr.Log, "out of gas")
		if oog {
			r.Fault("out-of-gas-abort")
		}
		status := "ok"
		if !tr.OK {
			status = "FAIL(" + firstLine(tr.Log) + ")"
		}
		r.Step("tx."+pt.Kind, "%s %s%s -> %s", pt.Desc, pt.Fault, lowGasTag(pt.LowGas), status)
		p := so.P
		if ff {
			// every ophost bank / pool / perm error or panic must abort the tx
			if tr.OK {
				return w.fail(mismatch{"fault.not-propagated", "dependency-fault-swallowed:" + pt.Kind, []string{"C01", "C19", "C12", w.p.Prop}, fmt.Sprintf("%s succeeded although an injected dependency fault fired (%s)", pt.Kind, pt.Fault)})
			}
			continue
		}
		if oog {
			if tr.OK {
				panic("out of gas log on successful tx")
			}
			continue
		}
		switch {
		case p.Kind == mustFail && tr.OK:
			var owners []string
			for _, rs := range p.Reasons {
				owners = append(owners, rs.Owners...)
			}
			rs := p.Reasons[0]
			for _, c := range p.Reasons {
				if w.own(c.Owners) {
					rs = c
					break
				}
			}
			return w.fail(mismatch{rs.Inv, rs.Key, owners, fmt.Sprintf("%s {%s} succeeded but must fail (%s)", pt.Kind, pt.Desc, rs.Inv)})
		case p.Kind == mustSucceed && !tr.OK:
			return w.fail(mismatch{"complete." + pt.Kind, pt.Kind + "-rejected", completenessOwners(pt.Kind), fmt.Sprintf("%s {%s} failed but the model says it must succeed: %s", pt.Kind, pt.Desc, firstLine(tr.Log))})
		}
		if tr.OK {
			anySuccess = true
			w.succ[pt.Kind]++
			if so.OnSuccess != nil {
				for _, mmz := range so.OnSuccess(tr) {
					if mmz.Inv == "model.abstain" {
						panic(core.Abort{Reason: "model-abstains:" + mmz.Key})
					}
					return w.fail(mmz)
				}
			}
			if pt.Kind == "claim" {
				x := pt.Msg.(*ophosttypes.MsgFinalizeTokenWithdrawal)
				k := fmt.Sprintf("%d/%d/%s/%s/%s/%s", x.BridgeId, x.Sequence, x.From, x.To, x.Amount.Denom, x.Amount.Amount)
				w.paid[k]++
				if w.paid[k] > 1 {
					return w.fail(mismatch{"claim.paid-twice", "withdrawal-paid-twice", []string{"C02", "C01"}, "withdrawal " + k + " finalized more than once"})
				}
				if strings.Contains(pt.Desc, "PERTURBED") {
					r.Probe("claim.perturbed-but-valid")
				}
			}
		} else {
			if so.OnFail != nil {
				so.OnFail(tr)
			}
			if pt.Kind == "claim" && strings.Contains(pt.Desc, "PERTURBED") {
				r.Probe("claim.perturbed-rejected")
			}
			if len(p.Reasons) > 0 {
				r.Probe("reject." + p.Reasons[0].Inv)
			}
		}
	}
	r.Mark(fmt.Sprintf("s%d", len(w.m.Bridges)))
	return w.compare(bc, anySuccess || len(stub) > 0)
}

func lowGasTag(b bool) string {
	if b {
		return " lowgas"
	}
	return ""
}

func firstLine(s string) string {
	if i := strings.IndexByte(s, '\n'); i >= 0 {
		s = s[:i]
	}
	if len(s) > 140 {
		s = s[:140]
	}
	return s
}

// compare checks the complete public state of the node against the model.
func (w *l1World) compare(bc blockCtx, changed bool) *core.Violation {
	ctx := w.n.QueryCtx()
	r := w.r
	// 0. nothing succeeded => nothing changed
	for _, name := range []string{banktypes.StoreKey, ophosttypes.StoreKey, node.StubStoreKey} {
		d := node.StoreDigest(ctx, w.n.Keys[name])
		if prev, ok := w.prevDig[name]; ok && !changed && prev != d {
			return w.fail(mismatch{"atomic.store-changed", "store-changed-without-success:" + name, []string{w.p.Prop}, "store " + name + " changed in a block in which no transaction succeeded"})
		}
		w.prevDig[name] = d
	}
	// 1. ledger: every account of the chain, both directions
	seen := map[string]bool{}
	for _, bal := range w.n.BK.GetAccountsBalances(ctx) {
		addr, _ := sdk.AccAddressFromBech32(bal.Address)
		seen[string(addr)] = true
		for _, c := range bal.Coins {
			if w.m.Bal.get(addr, c.Denom).Cmp(c.Amount.BigInt()) != 0 {
				return w.fail(mismatch{"ledger.mismatch", "ledger:" + w.acctKind(addr), []string{"C01", "C02", "C10", "C08"}, fmt.Sprintf("account %s (%s) holds %s, ledger model says %s%s", bal.Address, w.acctKind(addr), c, w.m.Bal.get(addr, c.Denom), c.Denom)})
			}
		}
		for d, v := range w.m.Bal[string(addr)] {
			if v.Sign() != 0 && bal.Coins.AmountOf(d).BigInt().Cmp(v) != 0 {
				return w.fail(mismatch{"ledger.mismatch", "ledger:" + w.acctKind(addr), []string{"C01", "C02", "C10", "C08"}, fmt.Sprintf("account %s (%s) holds %s%s, ledger model says %s", bal.Address, w.acctKind(addr), bal.Coins.AmountOf(d), d, v)})
			}
		}
	}
	addrs := make([]string, 0, len(w.m.Bal))
	for a := range w.m.Bal {
		addrs = append(addrs, a)
	}
	sort.Strings(addrs)
	for _, a := range addrs {
		if !seen[a] && len(w.m.Bal[a]) > 0 {
			return w.fail(mismatch{"ledger.mismatch", "ledger:" + w.acctKind([]byte(a)), []string{"C01", "C02", "C10", "C08"}, fmt.Sprintf("account %x holds nothing on chain, ledger model says %v", a, w.m.Bal[a])})
		}
	}
	// 2. exported module state vs model (all bridges: isolation)
	gs := w.n.OK.ExportGenesis(ctx)
	if gs.NextBridgeId != w.m.NextBridgeID {
		return w.fail(mismatch{"state.next-bridge-id", "next-bridge-id", []string{"C10", "C01", "C16"}, fmt.Sprintf("next bridge id %d, model %d", gs.NextBridgeId, w.m.NextBridgeID)})
	}
	if len(gs.Bridges) != len(w.m.Bridges) {
		return w.fail(mismatch{"state.bridge-count", "bridge-count", []string{"C10", "C01", "C16"}, fmt.Sprintf("%d bridges exported, model has %d", len(gs.Bridges), len(w.m.Bridges))})
	}
	q := w.n.Querier()
	for _, eb := range gs.Bridges {
		b := w.m.Bridges[eb.BridgeId]
		if b == nil {
			return w.fail(mismatch{"state.unknown-bridge", "unknown-bridge", []string{"C10", "C01"}, fmt.Sprintf("bridge %d exists on chain but not in the model", eb.BridgeId)})
		}
		if v := w.compareBridge(ctx, q, b, &eb, bc); v != nil {
			return v
		}
	}
	// 3. ids without a bridge carry nothing (C10)
	for _, id := range []uint64{w.m.NextBridgeID, w.m.NextBridgeID + 1} {
		if res, err := q.NextL1Sequence(ctx, &ophosttypes.QueryNextL1SequenceRequest{BridgeId: id}); err != nil || res.NextL1Sequence != 1 {
			return w.fail(mismatch{"deposit.prerecorded", "deposit-to-nonexistent-bridge", []string{"C10", "C01", "C16"}, fmt.Sprintf("bridge id %d does not exist yet but its next L1 sequence is %v (err=%v)", id, res, err)})
		}
		if res, err := q.TokenPairs(ctx, &ophosttypes.QueryTokenPairsRequest{BridgeId: id}); err != nil || len(res.TokenPairs) != 0 {
			return w.fail(mismatch{"deposit.prerecorded", "deposit-to-nonexistent-bridge", []string{"C10", "C01", "C16"}, fmt.Sprintf("bridge id %d does not exist yet but has token pairs", id)})
		}
	}
	// 4. IBC stub tables (C19)
	if w.hook {
		dump := w.n.StubDump(ctx)
		for k, v := range w.m.Admin {
			if dump["adm/"+k] != fmt.Sprintf("%x", v) {
				return w.fail(mismatch{"hook.admin-table", "admin-table-mismatch", ownHook, fmt.Sprintf("channel %s admin on chain %s, model %x", k, dump["adm/"+k], v)})
			}
		}
		for k, v := range dump {
			if strings.HasPrefix(k, "adm/") {
				if mv, ok := w.m.Admin[strings.TrimPrefix(k, "adm/")]; !ok || fmt.Sprintf("%x", mv) != v {
					return w.fail(mismatch{"hook.admin-table", "admin-table-mismatch", ownHook, fmt.Sprintf("channel %s has admin %s on chain, model says %x (present=%v)", k, v, mv, ok)})
				}
			}
		}
	}
	// params
	if pr, err := q.Params(ctx, &ophosttypes.QueryParamsRequest{}); err != nil || !pr.Params.RegistrationFee.Equal(w.m.RegFee) {
		return w.fail(mismatch{"state.params", "params", []string{"C12", "C16"}, "registration fee differs from model"})
	}
	_ = r
	return nil
}

func (w *l1World) acctKind(addr []byte) string {
	for _, id := range w.m.bridgeIDs() {
		if bytes.Equal(prover.Escrow(id), addr) {
			return "escrow"
		}
	}
	for _, id := range []uint64{w.m.NextBridgeID, w.m.NextBridgeID + 1} {
		if bytes.Equal(prover.Escrow(id), addr) {
			return "escrow-of-nonexistent-bridge"
		}
	}
	if bytes.Equal(addr, w.m.DistrAddr) {
		return "community-pool"
	}
	for _, u := range w.users {
		if bytes.Equal(u, addr) {
			return "user"
		}
	}
	return "other"
}

// specApply applies a transaction speculatively (generator side): atomic.
func (w *l1World) specApply(spec *modelL1, msgs []sdk.Msg, bc blockCtx) {
	sc := spec
	if len(msgs) > 1 {
		sc = spec.clone()
	}
	for _, m := range msgs {
		so := sc.step(m, bc)
		if so.P.Kind == mustFail {
			return // the whole tx is expected to fail: no effect
		}
		if so.OnSuccess != nil {
			so.OnSuccess(&txRes{OK: true})
		}
	}
	if len(msgs) > 1 {
		// commit: replay on the real speculative model
		for _, m := range msgs {
			if so := spec.step(m, bc); so.OnSuccess != nil {
				so.OnSuccess(&txRes{OK: true})
			}
		}
	}
}

// applyMulti runs a multi-message transaction through the model: it succeeds
// iff every message succeeds in sequence, and has no effect at all otherwise.
func (w *l1World) applyMulti(pt pendingTx, tr *txRes, bc blockCtx, faultFired bool) *core.Violation {
	if faultFired || strings.Contains(tr.Log, "out of gas") {
		if tr.OK && faultFired {
			return w.fail(mismatch{"fault.not-propagated", "dependency-fault-swallowed:multi", []string{"C01", "C19", "C12", w.p.Prop}, "multi-message tx succeeded although an injected dependency fault fired"})
		}
		return nil
	}
	scratch := w.m.clone()
	var p pred
	failAt := -1
	for i, m := range pt.Msgs {
		so := scratch.step(m, bc)
		if so.P.Kind == mustFail {
			p.Kind = mustFail
			p.Reasons = so.P.Reasons
			failAt = i
			break
		}
		if so.P.Kind == either {
			p.Kind = either
		}
		if so.OnSuccess != nil {
			for _, z := range so.OnSuccess(&txRes{OK: true}) {
				if z.Inv == "model.abstain" {
					panic(core.Abort{Reason: "model-abstains:" + z.Key})
				}
			}
		}
	}
	switch {
	case p.Kind == mustFail && tr.OK:
		var owners []string
		for _, rs := range p.Reasons {
			owners = append(owners, rs.Owners...)
		}
		rs := p.Reasons[0]
		return w.fail(mismatch{rs.Inv, rs.Key, owners, fmt.Sprintf("multi-message tx {%s} succeeded although its message %d must fail (%s)", pt.Desc, failAt, rs.Inv)})
	case p.Kind == mustSucceed && !tr.OK:
		return w.fail(mismatch{"complete.multi", "multi-rejected", []string{"C01", "C12", "C10", "C11"}, fmt.Sprintf("multi-message tx {%s} failed but every message must succeed: %s", pt.Desc, firstLine(tr.Log))})
	}
	if !tr.OK {
		w.r.Probe("multi.rolled-back")
		return nil
	}
	evs := splitByMsg(tr.Events, len(pt.Msgs))
	for i, m := range pt.Msgs {
		so := w.m.step(m, bc)
		sub := &txRes{OK: true, Events: evs[i]}
		if i < len(tr.Resps) && tr.Resps[i] != nil {
			sub.Resps = []proto.Message{tr.Resps[i]}
		}
		if so.OnSuccess != nil {
			for _, z := range so.OnSuccess(sub) {
				if z.Inv == "model.abstain" {
					panic(core.Abort{Reason: "model-abstains:" + z.Key})
				}
				return w.fail(z)
			}
		}
		if c, ok := m.(*ophosttypes.MsgFinalizeTokenWithdrawal); ok {
			k := fmt.Sprintf("%d/%d/%s/%s/%s/%s", c.BridgeId, c.Sequence, c.From, c.To, c.Amount.Denom, c.Amount.Amount)
			w.paid[k]++
			if w.paid[k] > 1 {
				return w.fail(mismatch{"claim.paid-twice", "withdrawal-paid-twice", []string{"C02", "C01"}, "withdrawal " + k + " finalized more than once"})
			}
		}
	}
	w.r.Probe("multi.committed")
	return nil
}

// sideTraffic is what a serving node meets between the consensus calls: clients
// simulate transactions for gas estimation and broadcast them into the mempool.  Both
// execute real handler code on a branch of the last committed state that is thrown
// away, so nothing of it may be visible in any later result (only keeper memory could
// carry it over).  Transactions are taken from this block and from recent blocks.
func (w *l1World) sideTraffic(point string, cur [][]byte) {
	if w.sidePct == 0 || !w.r.Chance(w.sidePct, 100) {
		return
	}
	for k := 1 + w.r.Intn(3); k > 0; k-- {
		var t []byte
		switch {
		case len(cur) > 0 && (len(w.recent) == 0 || w.r.Chance(1, 2)):
			t = cur[w.r.Intn(len(cur))]
		case len(w.recent) > 0:
			t = w.recent[w.r.Intn(len(w.recent))]
		default:
			return
		}
		if w.r.Chance(1, 4) {
			w.n.SideCheckTx(t)
			w.r.Fault("discarded-execution.checktx." + point)
		} else {
			w.n.SideSimulate(t)
			w.r.Fault("discarded-execution.simulate." + point)
		}
	}
}

// altProposal chooses the transaction list of the aborted proposal: the same list, or
// a different proposal for the same height (some transactions missing, other recent
// ones included, another order).
func (w *l1World) altProposal(raw [][]byte) [][]byte {
	if w.r.Chance(1, 2) {
		return nil
	}
	alt := [][]byte{}
	for _, t := range raw {
		if !w.r.Chance(1, 4) {
			alt = append(alt, t)
		}
	}
	for k := w.r.Intn(3); k > 0 && len(w.recent) > 0; k-- {
		alt = append(alt, w.recent[w.r.Intn(len(w.recent))])
	}
	for i := len(alt) - 1; i > 0; i-- {
		if w.r.Chance(1, 3) {
			j := w.r.Intn(i + 1)
			alt[i], alt[j] = alt[j], alt[i]
		}
	}
	w.r.Fault("aborted-optimistic-execution.different-proposal")
	return alt
}

// liftTree: in some commitments the withdrawals sit deep inside a much larger tree (proof lengths around and
// beyond 16, 32 and 64) whose other subtrees are only known by their hashes.
func (w *l1World) liftTree(t *prover.Tree) {
	var k int
	switch w.r.Weighted([]int{14, 4, 1, 1}) {
	case 0:
		return
	case 1:
		k = 1 + w.r.Intn(3)
	case 2:
		k = 13 + w.r.Intn(6)
	default:
		k = 58 + w.r.Intn(10)
	}
	sibs := make([]prover.Hash, k)
	for i := range sibs {
		sibs[i] = w.randHash()
	}
	t.Lift(sibs)
	if k > 10 {
		w.r.Probe("claim.deep-tree")
	}
}
