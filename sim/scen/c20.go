package scen

import (
	"bytes"
	"fmt"
	"math/big"
	"sort"
	"strings"
	"time"

	"cosmossdk.io/math"
	abci "github.com/cometbft/cometbft/abci/types"
	dbm "github.com/cosmos/cosmos-db"
	sdk "github.com/cosmos/cosmos-sdk/types"
	authcodec "github.com/cosmos/cosmos-sdk/x/auth/codec"
	"github.com/cosmos/cosmos-sdk/x/authz"
	banktypes "github.com/cosmos/cosmos-sdk/x/bank/types"

	"github.com/initia-labs/OPinit/x/opchild/lanes"
	opchildtypes "github.com/initia-labs/OPinit/x/opchild/types"

	"opsim/core"
	"opsim/node"
)

// ---------------------------------------------------------------------------
// C20 — the transaction life-cycle on L2 nodes with different node-local
// minimum gas prices: submit -> CheckTx -> mempool -> ReCheckTx after every
// block -> DeliverTx, plus simulate, while chain MinGasPrices / FeeWhitelist
// change and executors race with stale, fresh and mixed deposit relays.  The
// fee floor is decided by an arithmetic model in exact rationals.
// ---------------------------------------------------------------------------

var c20Denoms = []string{"umin", "ufee", "ujunk"}

type c20Node struct {
	n        *node.L2
	db       *dbm.MemDB
	prices   map[string]*big.Rat // node-local min gas prices
	mem      []c20Tx
	checkSeq uint64 // next L1 sequence in this node's check state
}

type c20Tx struct {
	Bytes []byte
	Msgs  []sdk.Msg
	Gas   uint64
	Fee   sdk.Coins
	Desc  string
}

type c20World struct {
	w     *l2World
	r     *core.Run
	nodes []*c20Node
	// the match handlers are built once, when the application wires its lanes, and live as long as the node
	freeMatch, sysMatch func(ctx sdk.Context, tx sdk.Tx) bool
}

func ratOf(s string) *big.Rat {
	x, ok := new(big.Rat).SetString(s)
	if !ok {
		panic("bad rational " + s)
	}
	return x
}

var c20PriceChoices = []string{"0", "0", "0.000001", "0.15", "0.1", "1", "2.5", "0.003"}

func genPrices(r *core.Run) (map[string]*big.Rat, string) {
	m := map[string]*big.Rat{}
	var parts []string
	for _, d := range []string{"ufee", "umin"} { // sorted by denom, as a DecCoins string must be
		if r.Chance(1, 3) {
			continue
		}
		s := c20PriceChoices[r.Intn(len(c20PriceChoices))]
		m[d] = ratOf(s)
		parts = append(parts, s+d)
	}
	return m, strings.Join(parts, ",")
}

func newC20(r *core.Run) *c20World {
	np, nstr := genPrices(r)
	p := &l2Profile{Prop: "C20", MaxTx: 3, Hooks: 0, BadRcpt: 5, W: map[string]int{"relay": 10, "send": 3}, NodeMinGas: nstr, ExtraDenoms: []string{"ufee", "ujunk"}, WhaleFees: true,
		NonTriv: func(*l2World) bool { return true }}
	c := &c20World{r: r}
	c.w = newL2World(r, p)
	c.nodes = append(c.nodes, &c20Node{n: c.w.n, db: c.w.db, prices: np, checkSeq: 1})
	c.freeMatch = lanes.NewFreeLaneMatchHandler(authcodec.NewBech32Codec(sdk.GetConfig().GetBech32AccountAddrPrefix()), c.w.n.OK).MatchHandler()
	c.sysMatch = lanes.SystemLaneMatchHandler()
	extra := 1 + r.Intn(2)
	for i := 0; i < extra; i++ {
		pp, ps := genPrices(r)
		db := dbm.NewMemDB()
		o := c.w.opts // the nodes differ in their node-local settings only
		o.MinGasPrices = ps
		n := node.NewL2(db, c.w.genesis, o, nil)
		c.nodes = append(c.nodes, &c20Node{n: n, db: db, prices: pp, checkSeq: 1})
		r.Logf("node %d min-gas-prices=%q", i+1, ps)
	}
	r.Logf("node 0 min-gas-prices=%q", nstr)
	return c
}

// chainPrices: the on-chain MinGasPrices parameter as rationals.
func (c *c20World) chainPrices() map[string]*big.Rat {
	m := map[string]*big.Rat{}
	for _, dc := range c.w.m.Params.MinGasPrices {
		m[dc.Denom] = ratOf(dc.Amount.String())
	}
	return m
}

// floorVerdict: must a checking-mode ante reject this tx for an insufficient fee?
func floorVerdict(nodeP, chainP map[string]*big.Rat, gas uint64, fee sdk.Coins) (reject bool, why string) {
	denoms := map[string]bool{}
	for d := range nodeP {
		denoms[d] = true
	}
	for d := range chainP {
		denoms[d] = true
	}
	ds := make([]string, 0, len(denoms))
	for d := range denoms {
		ds = append(ds, d)
	}
	sort.Strings(ds)
	allZero := true
	ok := false
	var parts []string
	for _, d := range ds {
		f := new(big.Rat)
		if v := nodeP[d]; v != nil && v.Cmp(f) > 0 {
			f = v
		}
		if v := chainP[d]; v != nil && v.Cmp(f) > 0 {
			f = v
		}
		if f.Sign() <= 0 {
			continue
		}
		allZero = false
		req := new(big.Rat).Mul(f, new(big.Rat).SetInt(new(big.Int).SetUint64(gas)))
		// ceil
		q := new(big.Int).Quo(req.Num(), req.Denom())
		if new(big.Int).Mul(q, req.Denom()).Cmp(req.Num()) != 0 {
			q.Add(q, big.NewInt(1))
		}
		have := fee.AmountOf(d).BigInt()
		parts = append(parts, fmt.Sprintf("%s: floor %s x gas %d -> need %s, fee %s", d, f.FloatString(6), gas, q, have))
		if q.Sign() > 0 && have.Cmp(q) >= 0 {
			ok = true
		}
	}
	if allZero {
		return false, "all floors zero"
	}
	return !ok, strings.Join(parts, "; ")
}

func (c *c20World) feeNear(nodeP, chainP map[string]*big.Rat, gas uint64) sdk.Coins {
	r := c.r
	fee := sdk.NewCoins()
	for _, d := range []string{"ufee", "umin"} {
		f := new(big.Rat)
		if v := nodeP[d]; v != nil && v.Cmp(f) > 0 {
			f = v
		}
		if v := chainP[d]; v != nil && v.Cmp(f) > 0 {
			f = v
		}
		req := new(big.Rat).Mul(f, new(big.Rat).SetInt(new(big.Int).SetUint64(gas)))
		q := new(big.Int).Quo(req.Num(), req.Denom())
		if new(big.Int).Mul(q, req.Denom()).Cmp(req.Num()) != 0 {
			q.Add(q, big.NewInt(1))
		}
		switch r.Weighted([]int{3, 3, 2, 2, 2, 1}) {
		case 5: // a token fee, whatever the requirement
			q = big.NewInt(int64(1 + r.Intn(100)))
		case 0: // exactly the requirement
		case 1:
			q.Sub(q, big.NewInt(1))
		case 2:
			q.Add(q, big.NewInt(int64(1+r.Intn(100))))
		case 3:
			q = big.NewInt(0)
		case 4:
			q = new(big.Int).Quo(q, big.NewInt(2))
		}
		if q.Sign() > 0 {
			fee = fee.Add(sdk.NewCoin(d, math.NewIntFromBigInt(q)))
		}
	}
	if r.Chance(1, 4) {
		fee = fee.Add(sdk.NewCoin("ujunk", math.NewInt(int64(1+r.Intn(1_000_000))))) // a denom with no floor price
	}
	return fee
}

func isInsufficientFee(code uint32, codespace string) bool { return codespace == "sdk" && code == 13 }

func (c *c20World) build(msgs []sdk.Msg, gas uint64, fee sdk.Coins, desc string) c20Tx {
	bz, err := node.BuildTx(c.w.enc, msgs, node.TxOpts{Gas: gas, Fee: fee})
	if err != nil {
		panic(err)
	}
	if gas == 0 {
		// BuildTx substitutes a default for 0; build explicitly
		b := c.w.enc.TxConfig.NewTxBuilder()
		_ = b.SetMsgs(msgs...)
		b.SetGasLimit(0)
		b.SetFeeAmount(fee)
		bz, _ = c.w.enc.TxConfig.TxEncoder()(b.GetTx())
	}
	return c20Tx{Bytes: bz, Msgs: msgs, Gas: gas, Fee: fee, Desc: desc}
}

// expectDeposits walks the deposit messages of a tx over a check-state sequence counter.
func (c *c20World) expectDeposits(msgs []sdk.Msg, next uint64) (n, stale, fresh int, err bool, after uint64) {
	after = next
	for _, m := range msgs {
		d, ok := m.(*opchildtypes.MsgFinalizeTokenDeposit)
		if !ok {
			continue
		}
		n++
		if !c.w.m.isExecutor(d.Sender) {
			return n, stale, fresh, true, next
		}
		switch {
		case d.Sequence < after:
			stale++
		case d.Sequence == after:
			fresh++
			after++
		default:
			return n, stale, fresh, true, next
		}
	}
	return
}

// checkOne runs CheckTx on one node and compares with the model.
func (c *c20World) checkOne(i int, t c20Tx, recheck bool) (accepted bool, v *core.Violation) {
	nd := c.nodes[i]
	typ := abci.CheckTxType_New
	mode := "CheckTx"
	if recheck {
		typ = abci.CheckTxType_Recheck
		mode = "ReCheckTx"
	}
	res, err := nd.n.App.CheckTx(&abci.RequestCheckTx{Tx: t.Bytes, Type: typ})
	if err != nil {
		panic(err)
	}
	own := []string{"C20"}
	rejectFee, why := floorVerdict(nd.prices, c.chainPrices(), t.Gas, t.Fee)
	gotFee := isInsufficientFee(res.Code, res.Codespace)
	c.r.Step("check", "node%d %s %s gas=%d fee=%s -> code=%d %s", i, mode, t.Desc, t.Gas, t.Fee, res.Code, firstLine(res.Log))
	if t.Gas != 0 {
		// a transaction below the floor must not be admitted; which error rejects it is not the property's business
		if rejectFee && res.Code == 0 {
			return false, c.w.fail(mismatch{"fee.floor-not-enforced", "fee-below-floor-admitted", own, fmt.Sprintf("node%d %s admitted (code %d) a tx whose fee is below every positive floor: %s", i, mode, res.Code, why)})
		}
		if !rejectFee && gotFee {
			return false, c.w.fail(mismatch{"fee.floor-too-strict", "fee-at-floor-rejected", own, fmt.Sprintf("node%d %s rejected for insufficient fee a tx that meets a floor: %s (%s)", i, mode, why, firstLine(res.Log))})
		}
		if rejectFee {
			c.r.Probe("fee.rejected-below-floor")
		} else if why != "all floors zero" {
			c.r.Probe("fee.admitted-at-floor")
		}
	}
	if gotFee || res.Code == 11 || (rejectFee && res.Code != 0) {
		return false, nil
	}
	// redundancy filter (only meaningful once the fee stage passed)
	n, _, fresh, derr, after := c.expectDeposits(t.Msgs, nd.checkSeq)
	if n > 0 {
		redundant := strings.Contains(res.Log, "redundant")
		switch {
		case derr:
			if res.Code == 0 {
				return false, c.w.fail(mismatch{"redundancy.bad-relay-admitted", "bad-relay-admitted", own, fmt.Sprintf("node%d %s admitted a relay tx with a sequence ahead of the check state / an unauthorised sender: %s", i, mode, t.Desc)})
			}
		case fresh == 0:
			if res.Code == 0 {
				return false, c.w.fail(mismatch{"redundancy.stale-only-admitted", "stale-only-relay-admitted", own, fmt.Sprintf("node%d %s did not reject a tx made solely of already processed deposits (code %d %s): %s", i, mode, res.Code, firstLine(res.Log), t.Desc)})
			}
			c.r.Probe("redundancy.stale-only-rejected")
		default:
			if redundant {
				return false, c.w.fail(mismatch{"redundancy.fresh-rejected", "fresh-relay-rejected-as-redundant", own, fmt.Sprintf("node%d %s rejected as redundant a tx containing a fresh deposit: %s", i, mode, t.Desc)})
			}
			if res.Code == 0 {
				c.r.Probe("redundancy.fresh-admitted")
			}
		}
	}
	if res.Code == 0 {
		nd.checkSeq = after
		return true, nil
	}
	return false, nil
}

func (c *c20World) genRelayTx(i int) c20Tx {
	r := c.r
	w := c.w
	nd := c.nodes[i]
	next := nd.checkSeq
	sender := w.m.Params.BridgeExecutors[r.Intn(len(w.m.Params.BridgeExecutors))]
	var seqs []uint64
	switch r.Weighted([]int{4, 4, 3, 1, 1}) {
	case 0: // fresh only
		seqs = []uint64{next}
		if r.Chance(1, 3) {
			seqs = append(seqs, next+1)
		}
	case 1: // stale only
		if next > 1 {
			seqs = []uint64{1 + uint64(r.Intn(int(next-1)))}
			if r.Chance(1, 3) && next > 2 {
				seqs = append(seqs, 1+uint64(r.Intn(int(next-1))))
			}
		} else {
			seqs = []uint64{next}
		}
	case 2: // mixed
		if next > 1 {
			seqs = []uint64{1 + uint64(r.Intn(int(next-1))), next}
		} else {
			seqs = []uint64{next}
		}
	case 3:
		seqs = []uint64{next + 1 + uint64(r.Intn(3))}
	case 4:
		sender = w.outsider
		seqs = []uint64{next}
	}
	if len(seqs) > 1 && r.Chance(1, 2) {
		seqs[0], seqs[len(seqs)-1] = seqs[len(seqs)-1], seqs[0] // e.g. a fresh deposit before a stale one
	}
	var msgs []sdk.Msg
	for _, s := range seqs {
		msgs = append(msgs, w.depositMsg(w.m, s, sender))
	}
	if r.Chance(1, 8) {
		msgs = append(msgs, &banktypes.MsgSend{FromAddress: sender, ToAddress: w.pickUser(), Amount: sdk.NewCoins(sdk.NewCoin("umin", math.NewInt(1)))})
	}
	gas := uint64(3_000_000)
	fee := c.feeNear(nd.prices, c.chainPrices(), gas)
	if r.Chance(2, 3) {
		// make the fee stage pass so that the redundancy filter is reached
		fee = sdk.NewCoins()
		for _, d := range []string{"ufee", "umin"} {
			fee = fee.Add(sdk.NewCoin(d, math.NewInt(30_000_000)))
		}
	}
	return c.build(msgs, gas, fee, fmt.Sprintf("relay seqs=%v(check-next=%d) by=%s msgs=%d", seqs, next, short(sender), len(msgs)))
}

func (c *c20World) genSendTx(i int) c20Tx {
	r := c.r
	w := c.w
	from := w.pickUser()
	msg := &banktypes.MsgSend{FromAddress: from, ToAddress: w.pickUser(), Amount: sdk.NewCoins(sdk.NewCoin("umin", math.NewInt(int64(1+r.Intn(100)))))}
	gas := []uint64{0, 1, 1000, 200_000, 10_000_000, uint64(1 + r.Intn(5_000_000)), 333_333, 1 << 63, 1<<63 + uint64(r.Intn(1_000_000)), 1<<64 - 1}[r.Weighted([]int{3, 3, 3, 3, 3, 3, 3, 1, 1, 1})]
	fee := c.feeNear(c.nodes[i].prices, c.chainPrices(), gas)
	return c.build([]sdk.Msg{msg}, gas, fee, fmt.Sprintf("send by=%s", short(from)))
}

// lanes: pure match handlers evaluated against the committed state
func (c *c20World) checkLanes() *core.Violation {
	r := c.r
	w := c.w
	own := []string{"C20"}
	ctx := w.n.QueryCtx()
	if r.Chance(1, 3) {
		// the context a block proposer has: state of the last committed block, height of the next one
		ctx = ctx.WithBlockHeight(w.n.Height() + 1)
	}
	exec := w.executors[0]
	mkOracle := func() sdk.Msg { return &opchildtypes.MsgUpdateOracle{Sender: exec, Height: 5, Data: []byte{1}} }
	mkExec := func(inner ...sdk.Msg) sdk.Msg {
		g, _ := sdk.AccAddressFromBech32(w.pickUser())
		m := authz.NewMsgExec(g, inner)
		return &m
	}
	send := &banktypes.MsgSend{FromAddress: exec, ToAddress: w.pickUser(), Amount: sdk.NewCoins(sdk.NewCoin("umin", math.NewInt(1)))}
	shapes := []struct {
		name string
		msgs []sdk.Msg
		sys  bool
	}{
		{"[oracle]", []sdk.Msg{mkOracle()}, true},
		{"[oracle,oracle]", []sdk.Msg{mkOracle(), mkOracle()}, false},
		{"[exec{oracle}]", []sdk.Msg{mkExec(mkOracle())}, true},
		{"[exec{oracle,oracle}]", []sdk.Msg{mkExec(mkOracle(), mkOracle())}, false},
		{"[exec{exec{oracle}}]", []sdk.Msg{mkExec(mkExec(mkOracle()))}, false},
		{"[exec{exec{exec{oracle}}}]", []sdk.Msg{mkExec(mkExec(mkExec(mkOracle())))}, false},
		{"[exec{send}]", []sdk.Msg{mkExec(send)}, false},
		{"[send]", []sdk.Msg{send}, false},
		{"[oracle,send]", []sdk.Msg{mkOracle(), send}, false},
		{"[exec{oracle},oracle]", []sdk.Msg{mkExec(mkOracle()), mkOracle()}, false},
		{"[exec{oracle,send}]", []sdk.Msg{mkExec(mkOracle(), send)}, false},
		{"[deposit]", []sdk.Msg{w.depositMsg(w.m, w.m.NextL1Seq, exec)}, false},
	}
	sh := shapes[r.Intn(len(shapes))]
	// payer / granter / whitelist combination
	payer, granter := sdk.AccAddress(nil), sdk.AccAddress(nil)
	if r.Chance(1, 2) {
		payer, _ = sdk.AccAddressFromBech32(w.pickUser())
	}
	if r.Chance(1, 2) {
		granter, _ = sdk.AccAddressFromBech32(w.pickUser())
	}
	bz, err := node.BuildTx(w.enc, sh.msgs, node.TxOpts{Payer: payer, Granter: granter})
	if err != nil {
		panic(err)
	}
	tx, err := w.enc.TxConfig.TxDecoder()(bz)
	if err != nil {
		panic(err)
	}
	gotSys := c.sysMatch(ctx, tx)
	if gotSys != sh.sys {
		return w.fail(mismatch{"lane.system", "system-lane-shape:" + sh.name, own, fmt.Sprintf("system lane match for %s = %v, want %v", sh.name, gotSys, sh.sys)})
	}
	// fee payer: explicit payer, else the first signer of the first message
	feePayer := payer
	if feePayer == nil {
		signers, _, err := w.enc.Codec.GetMsgV1Signers(sh.msgs[0])
		if err != nil || len(signers) == 0 {
			return nil
		}
		feePayer = signers[0]
	}
	wantFree := false
	for _, a := range w.m.Params.FeeWhitelist {
		ab, _ := sdk.AccAddressFromBech32(a)
		if bytes.Equal(ab, feePayer) || (granter != nil && bytes.Equal(ab, granter)) {
			wantFree = true
		}
	}
	gotFree := c.freeMatch(ctx, tx)
	if gotFree != wantFree {
		return w.fail(mismatch{"lane.free", "free-lane-whitelist", own, fmt.Sprintf("free lane match = %v, want %v (payer %s granter %s whitelist %v)", gotFree, wantFree, feePayer, granter, w.m.Params.FeeWhitelist)})
	}
	c.r.Probe("lane.checked")
	if wantFree {
		c.r.Probe("lane.free-matched")
	}
	return nil
}

func (c *c20World) genParamsTx() (sdk.Msg, string) {
	r := c.r
	w := c.w
	np := w.m.Params
	np.BridgeExecutors = append([]string{}, w.m.Params.BridgeExecutors...)
	var dcs sdk.DecCoins
	for _, d := range []string{"ufee", "umin"} {
		if r.Chance(1, 3) {
			continue
		}
		s := c20PriceChoices[r.Intn(len(c20PriceChoices))]
		dcs = append(dcs, sdk.NewDecCoinFromDec(d, math.LegacyMustNewDecFromStr(s)))
	}
	np.MinGasPrices = dcs
	np.FeeWhitelist = nil
	for i := 0; i < r.Intn(3); i++ {
		np.FeeWhitelist = append(np.FeeWhitelist, w.pickUser())
	}
	if r.Chance(1, 8) {
		// a blank entry (a trailing comma in somebody's tooling): not an address, the update must be refused
		np.FeeWhitelist = append(np.FeeWhitelist, []string{"", " "}[r.Intn(2)])
	}
	return &opchildtypes.MsgUpdateParams{Authority: w.m.Authority, Params: &np}, fmt.Sprintf("min-gas-prices=%s whitelist=%d", dcs, len(np.FeeWhitelist))
}

func runC20(r *core.Run) *core.Violation {
	c := newC20(r)
	w := c.w
	own := []string{"C20"}
	steps := 15 + r.Intn(40)
	if r.Tier == "thorough" && r.Chance(1, 4) {
		steps *= 3
	}
	for s := 0; s < steps; s++ {
		i := r.Intn(len(c.nodes))
		switch r.Weighted([]int{6, 6, 3, 4, 1}) {
		case 0, 1:
			var t c20Tx
			if r.Chance(1, 2) {
				t = c.genRelayTx(i)
			} else {
				t = c.genSendTx(i)
			}
			ok, v := c.checkOne(i, t, false)
			if v != nil {
				return v
			}
			if ok {
				c.nodes[i].mem = append(c.nodes[i].mem, t)
			}
			// simulate is not a checking mode for the redundancy filter
			if n, _, fresh, derr, _ := c.expectDeposits(t.Msgs, w.m.NextL1Seq); n > 0 && fresh == 0 && !derr && n == len(t.Msgs) && t.Gas > 1_000_000 {
				if rej, _ := floorVerdict(c.nodes[i].prices, c.chainPrices(), t.Gas, t.Fee); !rej {
					if _, _, err := c.nodes[i].n.App.Simulate(t.Bytes); err != nil && strings.Contains(err.Error(), "redundant") {
						return w.fail(mismatch{"redundancy.simulate", "redundancy-filter-in-simulate", own, "simulate rejected a stale-only relay as redundant: " + err.Error()})
					}
					c.r.Probe("redundancy.simulate-not-filtered")
				}
			}
		case 2:
			if v := c.checkLanes(); v != nil {
				return v
			}
		case 3, 4:
			// a block: node 0's proposer takes its mempool (plus, sometimes, txs that never passed CheckTx)
			var txs []l2Pending
			for _, t := range c.nodes[0].mem {
				txs = append(txs, l2Pending{Msgs: t.Msgs, Bytes: t.Bytes, Kind: kindOf(t.Msgs), Desc: t.Desc})
			}
			c.nodes[0].mem = nil
			if r.Chance(1, 3) {
				pm, pd := c.genParamsTx()
				bz, _ := node.BuildTx(w.enc, []sdk.Msg{pm}, node.TxOpts{})
				txs = append(txs, l2Pending{Msgs: []sdk.Msg{pm}, Bytes: bz, Kind: "params", Desc: pd})
			}
			if r.Chance(1, 3) {
				// outside checking nothing is enforced: a zero-fee transfer and a stale-only relay go straight into the block
				from := w.pickUser()
				zm := &banktypes.MsgSend{FromAddress: from, ToAddress: w.pickUser(), Amount: sdk.NewCoins(sdk.NewCoin("umin", math.NewInt(1)))}
				zt := c.build([]sdk.Msg{zm}, 500_000, sdk.NewCoins(), "zero-fee send proposed directly")
				txs = append(txs, l2Pending{Msgs: zt.Msgs, Bytes: zt.Bytes, Kind: "send", Desc: zt.Desc})
				if w.m.NextL1Seq > 1 {
					sm := w.depositMsg(w.m, 1, w.m.Params.BridgeExecutors[0])
					st := c.build([]sdk.Msg{sm}, 3_000_000, sdk.NewCoins(), "stale-only relay proposed directly")
					txs = append(txs, l2Pending{Msgs: st.Msgs, Bytes: st.Bytes, Kind: "relay", Desc: st.Desc})
				}
				c.r.Probe("deliver.unchecked-txs-proposed")
			}
			T := w.now.Add(time.Duration(1+r.Intn(5)) * time.Second)
			bc := blockCtx{Height: w.n.Height() + 1, Time: T}
			w.planClass = ""
			w.histEntriesAtBegin = w.m.Params.HistoricalEntries
			for h := range w.histWritten {
				if h <= bc.Height-int64(w.histEntriesAtBegin) {
					delete(w.histWritten, h)
				}
			}
			if w.histEntriesAtBegin > 0 {
				w.histWritten[bc.Height] = true
			}
			// fees are real here: the model must know them
			c.bookFees(txs)
			if v := w.execBlock(bc, txs, ""); v != nil {
				return v
			}
			for _, tr := range w.lastRes.TxResults {
				if isInsufficientFee(tr.Code, tr.Codespace) {
					return w.fail(mismatch{"fee.enforced-in-deliver", "fee-floor-enforced-outside-checking", own, "a delivered transaction failed with insufficient fee: " + firstLine(tr.Log)})
				}
				if strings.Contains(tr.Log, "redundant") {
					return w.fail(mismatch{"redundancy.deliver", "redundancy-filter-in-deliver", own, "a delivered transaction was rejected as redundant"})
				}
			}
			raw := make([][]byte, len(txs))
			for k := range txs {
				raw[k] = txs[k].Bytes
			}
			for k := 1; k < len(c.nodes); k++ {
				res, err := c.nodes[k].n.Finalize(T, raw, nil)
				if err != nil {
					panic(err)
				}
				if !bytes.Equal(res.AppHash, w.lastRes.AppHash) {
					return w.fail(mismatch{"replica.app-hash", "replica-app-hash", []string{"C20", "C18"}, fmt.Sprintf("node %d computed another app hash for block %d", k, bc.Height)})
				}
				c.nodes[k].n.Commit()
				c.r.Witness(c.nodes[k].n.App.LastCommitID().Hash)
			}
			// after the commit every node rechecks its mempool against the new state and parameters
			for k, nd := range c.nodes {
				nd.checkSeq = w.m.NextL1Seq
				var keep []c20Tx
				for _, t := range nd.mem {
					ok, v := c.checkOne(k, t, true)
					if v != nil {
						return v
					}
					if ok {
						keep = append(keep, t)
					}
				}
				nd.mem = keep
			}
		}
	}
	r.NonTriv = r.Probes["fee.rejected-below-floor"] >= 1 && r.Probes["fee.admitted-at-floor"] >= 1
	return nil
}

func kindOf(msgs []sdk.Msg) string {
	switch msgs[0].(type) {
	case *opchildtypes.MsgFinalizeTokenDeposit:
		if len(msgs) > 1 {
			return "relaybatch"
		}
		return "relay"
	case *banktypes.MsgSend:
		return "send"
	}
	return "other"
}

// bookFees moves the declared fees from payer to fee collector in the ledger model before the block runs.
func (c *c20World) bookFees(txs []l2Pending) {
	w := c.w
	w.feeBook = nil
	for _, t := range txs {
		tx, err := w.enc.TxConfig.TxDecoder()(t.Bytes)
		if err != nil {
			panic(err)
		}
		ft := tx.(sdk.FeeTx)
		w.feeBook = append(w.feeBook, feeEntry{Payer: ft.FeePayer(), Fee: ft.GetFee()})
	}
}
