package scen

import (
	"time"

	"opsim/core"
)

var l1Components = map[string]string{
	"x/ophost keeper, msg server, querier, genesis": "real",
	"ophost/types/hook.BridgeHook":                  "real",
	"x/auth, x/bank keepers":                        "real",
	"baseapp (runTx, gas, panic recovery, commit)":  "real",
	"IAVL commit multistore on MemDB":               "real",
	"consensus engine":                              "stub: the scheduler is the single proposer",
	"tx signature verification":                     "stub: signer = declared signer field",
	"community pool keeper":                         "stub: store-backed bank transfer to the distribution module account",
	"IBC channel / perm keepers":                    "stub: store-backed tables (next send sequence, admin)",
	"L2 + executor":                                 "stub: fabricated withdrawal sets committed by the independent prover (opsim/prover)",
}

var stdPeriods = []time.Duration{time.Second, 1500 * time.Millisecond, 10 * time.Second, time.Hour, 7 * 24 * time.Hour}

func runL1(p *l1Profile) func(r *core.Run) *core.Violation {
	return func(r *core.Run) *core.Violation {
		w := newL1World(r, p)
		nb := p.Blocks[0] + r.Intn(p.Blocks[1]-p.Blocks[0]+1)
		if r.Tier == "thorough" && r.Chance(1, 4) {
			nb *= 3 // the thorough tier also goes deeper, not only wider
		}
		for i := 0; i < nb; i++ {
			if v := w.runBlock(); v != nil {
				return v
			}
		}
		r.NonTriv = p.NonTriv(w)
		return nil
	}
}

func init() {
	c10 := &l1Profile{Prop: "C10", DepFault: 5, Reimport: 2, Blocks: [2]int{8, 40}, MaxTx: 4, Periods: []time.Duration{time.Second, 1500 * time.Millisecond, 10 * time.Second, time.Hour}, Crash: 5,
		W:       map[string]int{"create": 10, "deposit": 60, "send": 8, "propose": 6, "claim": 8, "updProposer": 2, "params": 2, "recordBatch": 2, "multi": 6},
		RegFee:  true,
		NonTriv: func(w *l1World) bool { return w.succ["deposit"] >= 2 && len(w.m.Bridges) >= 1 }}
	core.Register(&core.Scenario{ID: "C10", Level: "exploration", Run: runL1(c10), Components: l1Components,
		Rule:        "seeded histories of bridge creation and deposits over existing and not-yet-created bridge ids (amounts 0..2^63, malformed recipients, payloads), lock-step ledger/sequence model, events and queries compared after every block; non-trivial = at least 2 successful deposits; distinct = fingerprint of step kinds + abstract state",
		Assumptions: []string{"outer tx signatures are not verified; the signer is the declared signer field", "single block proposer"},
		QuickRuns:   4000, QuickSecs: 75, ThoroughRuns: 60000, ThoroughSecs: 600,
		RequiredProbes: []string{"reject.deposit.insufficient-funds"}})

	l1Assume := []string{"outer tx signatures are not verified; the signer is the declared signer field", "single block proposer", "the L2 side is represented by fabricated withdrawal sets committed by the independent prover"}

	c01 := &l1Profile{Prop: "C01", HookPct: 25, Reimport: 2, Blocks: [2]int{10, 50}, MaxTx: 5, Periods: []time.Duration{time.Second, 10 * time.Second, time.Hour}, Crash: 5, DepFault: 6, GasAbort: 4, Byz: 25, RegFee: true,
		W:       map[string]int{"claimburst": 8, "create": 8, "deposit": 30, "send": 10, "propose": 14, "delete": 4, "claim": 30, "updProposer": 2, "updChallenger": 2, "batchInfo": 1, "params": 1, "multi": 8},
		NonTriv: func(w *l1World) bool { return w.succ["deposit"] >= 1 && w.succ["claim"] >= 1 && len(w.m.Bridges) >= 2 }}
	core.Register(&core.Scenario{ID: "C01", Level: "exploration", Run: runL1(c01), Components: l1Components, Assumptions: l1Assume,
		Rule:      "seeded multi-bridge histories (create, deposit, propose, delete, claim incl. cross-bridge replays, role updates, third-party sends to escrows) with crashes, dependency faults on the bank/community-pool seams and out-of-gas aborts; after every block the bank's complete balance table and every bridge's exported state are compared with a ledger model; non-trivial = >=2 bridges, >=1 successful deposit and >=1 successful claim",
		QuickRuns: 3000, QuickSecs: 75, ThoroughRuns: 50000, ThoroughSecs: 700,
		RequiredProbes: []string{"reject.claim.escrow-underfunded", "claim.perturbed-rejected"}})

	c02 := &l1Profile{Prop: "C02", GasAbort: 4, Reimport: 2, Blocks: [2]int{12, 60}, MaxTx: 6, Periods: []time.Duration{time.Second, 2 * time.Second, 10 * time.Second}, Crash: 10, Byz: 8,
		W:       map[string]int{"claimburst": 12, "create": 4, "deposit": 14, "propose": 16, "delete": 8, "claim": 60, "updProposer": 1, "multi": 5, "send": 4},
		NonTriv: func(w *l1World) bool { return w.succ["claim"] >= 2 }}
	core.Register(&core.Scenario{ID: "C02", Level: "exploration", Run: runL1(c02), Components: l1Components, Assumptions: l1Assume,
		Rule:      "seeded histories of propose / delete / re-propose (cumulative trees carrying earlier leaves) and claims of the same withdrawal by several submitters against every output that contains it, same block and across blocks, with crash between FinalizeBlock and Commit and block replay; oracle: per (bridge, withdrawal) at most one successful finalisation, Claimed query true exactly for paid withdrawals, ledger equality; non-trivial = >=2 successful claims",
		QuickRuns: 2000, QuickSecs: 75, ThoroughRuns: 50000, ThoroughSecs: 700,
		RequiredProbes: []string{"reject.claim.already-claimed"}})

	c03 := &l1Profile{Prop: "C03", Reimport: 2, Blocks: [2]int{10, 50}, MaxTx: 8, Periods: []time.Duration{time.Second, 2 * time.Second, time.Hour}, Byz: 75,
		W:       map[string]int{"create": 4, "deposit": 14, "propose": 16, "delete": 5, "claim": 70, "multi": 6, "send": 5},
		NonTriv: func(w *l1World) bool { return w.succ["claim"] >= 1 && w.r.Probes["claim.perturbed-rejected"] >= 3 }}
	core.Register(&core.Scenario{ID: "C03", Level: "exploration", Run: runL1(c03), Components: l1Components, Assumptions: l1Assume,
		Rule:      "every valid claim is also submitted under single- and double-field perturbations (20 mutators: bit flips, swaps, other bridge / output / sequence / denom, amount +-1, *2, +2^64, proof truncation / extension / permutation, inner node or leaf as sibling, empty proof) in all oracle states; oracle: an independent verifier (opsim/prover) decides admissibility, rejected claims leave all state unchanged; non-trivial = >=1 accepted claim and >=3 rejected perturbed claims",
		QuickRuns: 3000, QuickSecs: 75, ThoroughRuns: 50000, ThoroughSecs: 700,
		RequiredProbes: []string{"reject.claim.proof-mismatch", "reject.claim.output-root-mismatch", "claim.perturbed-but-valid"}})

	c05 := &l1Profile{Prop: "C05", GasAbort: 3, Reimport: 2, Blocks: [2]int{15, 70}, MaxTx: 4, Crash: 5, Byz: 5, BadCfg: 20,
		Periods: []time.Duration{1, 999 * time.Millisecond, time.Second, 1500 * time.Millisecond, 10 * time.Second, time.Hour, 7 * 24 * time.Hour, 1<<63 - 1},
		W:       map[string]int{"burst": 5, "create": 8, "deposit": 10, "propose": 25, "delete": 20, "claim": 35, "updProposer": 3, "updChallenger": 3, "batchInfo": 3, "metadata": 2, "oracleCfg": 1, "multi": 5},
		NonTriv: func(w *l1World) bool { return w.succ["claim"] >= 1 && w.succ["delete"] >= 1 }}
	core.Register(&core.Scenario{ID: "C05", Level: "exploration", Run: runL1(c05), Components: l1Components, Assumptions: l1Assume,
		Rule:      "clock-centric histories: bridges offered with periods from 1 ns to 2^63-1 ns and hostile (zero / negative) ones, propose / delete / re-propose / claim / role changes along non-decreasing block times that target the instants just before, at and after each finality boundary; oracle stated in real time with an explicit 1 s ambiguity band, observations inside the band must agree with each other and finality is irreversible; non-trivial = >=1 successful claim and >=1 successful deletion",
		QuickRuns: 3000, QuickSecs: 75, ThoroughRuns: 50000, ThoroughSecs: 700,
		RequiredProbes: []string{"reject.claim.not-final", "reject.delete.final-output", "time.boundary-targeted", "finality.band-observed"}})

	c11 := &l1Profile{Prop: "C11", GasAbort: 4, Reimport: 2, Blocks: [2]int{15, 70}, MaxTx: 5, Crash: 5, Periods: []time.Duration{time.Second, 5 * time.Second, time.Hour},
		W:       map[string]int{"burst": 8, "create": 8, "deposit": 4, "propose": 50, "delete": 30, "claim": 8, "updProposer": 3, "updChallenger": 3, "batchInfo": 3, "multi": 6},
		NonTriv: func(w *l1World) bool { return w.succ["propose"] >= 3 && w.succ["delete"] >= 1 }}
	core.Register(&core.Scenario{ID: "C11", Level: "exploration", Run: runL1(c11), Components: l1Components, Assumptions: l1Assume,
		Rule:      "seeded histories of propose (right / wrong index, higher / equal / lower L2 block), delete (any index, any signer) and re-propose over several bridges with some outputs becoming final; after every block the paginated OutputProposals listing, OutputProposal(i), LastFinalizedOutput and the exported log are compared with a model log and the structural invariants are checked directly; non-trivial = >=3 accepted proposals and >=1 deletion",
		QuickRuns: 2000, QuickSecs: 75, ThoroughRuns: 50000, ThoroughSecs: 700,
		RequiredProbes: []string{"reject.propose.wrong-index", "reject.propose.l2-block-not-increasing", "reject.delete.final-output", "reject.delete.index-out-of-range"}})

	c19 := &l1Profile{Prop: "C19", Reimport: 2, Blocks: [2]int{10, 45}, MaxTx: 4, Crash: 5, DepFault: 10, Hook: true, Periods: []time.Duration{time.Second, time.Hour},
		W:       map[string]int{"create": 30, "metadata": 30, "updChallenger": 25, "updProposer": 5, "deposit": 3, "propose": 3},
		NonTriv: func(w *l1World) bool { return len(w.m.Admin) >= 1 && (w.succ["metadata"]+w.succ["updChallenger"]) >= 1 }}
	core.Register(&core.Scenario{ID: "C19", Level: "exploration", Run: runL1(c19), Components: l1Components, Assumptions: append(append([]string{}, l1Assume...), "IBC channel and perm keepers are store-backed stubs with the semantics stated in DESIGN 3.1"),
		Rule:      "histories of create-bridge / update-metadata / update-challenger over several bridges with metadata drawn from a grammar (valid lists, unknown fields, wrong types, differently-cased keys, non-JSON) and channels that are missing, fresh, in use, or administered by someone else; the k-th perm-keeper call of a message is made to fail or panic; oracle: admin table written from the property text compared after every block; non-trivial = >=1 admin granted and >=1 successful metadata/challenger update",
		QuickRuns: 3000, QuickSecs: 75, ThoroughRuns: 50000, ThoroughSecs: 700,
		RequiredProbes: []string{"reject.hook.channel-not-grantable"}})
}
