package scen

import (
	"bytes"
	"encoding/hex"
	"fmt"
	"math/big"
	"sort"
	"strconv"

	cmtcrypto "github.com/cometbft/cometbft/proto/tendermint/crypto"
	codectypes "github.com/cosmos/cosmos-sdk/codec/types"
	cryptotypes "github.com/cosmos/cosmos-sdk/crypto/types"
	sdk "github.com/cosmos/cosmos-sdk/types"
	authtypes "github.com/cosmos/cosmos-sdk/x/auth/types"
	banktypes "github.com/cosmos/cosmos-sdk/x/bank/types"

	opchildtypes "github.com/initia-labs/OPinit/x/opchild/types"
)

// ---------------------------------------------------------------------------
// Reference model of the L2 side, written from the property statements.
// ---------------------------------------------------------------------------

type mVal struct {
	Operator string // bech32 valoper
	OpBytes  []byte
	PubKey   []byte // raw ed25519 key bytes
	Power    int64
	Moniker  string
}

// hookSpec is harness knowledge about a deposit payload it built itself.
type hookSpec struct {
	Class  string // garbage | good | failmsg | badsig | staleseq | hungry | unrouted | wdhook | nested (the payload relays this very deposit again)
	Signer string // label of the signing key
	Seq    uint64 // account sequence the payload was signed with
	Sends  []hookSend
	// Withdraw: the payload's message is an L2 withdrawal by the signer (class "wdhook")
	Withdraw *opchildtypes.MsgInitiateTokenWithdrawal
}

// authenticates: the payload decodes and carries a valid signature (so the
// signer's account sequence is consumed if the sequence matches).
func (h *hookSpec) authenticates() bool {
	return h.Class == "good" || h.Class == "failmsg" || h.Class == "hungry" || h.Class == "unrouted" || h.Class == "wdhook" || h.Class == "nested"
}

type hookSend struct {
	To     []byte
	Denom  string
	Amount *big.Int
}

type modelL2 struct {
	HistQuirk bool // see stepParams
	SecpVals  bool // the chain's consensus parameters allow secp256k1 validator keys
	Prop      string
	Authority string
	Params    opchildtypes.Params
	NextL1Seq uint64
	NextL2Seq uint64
	Pairs     map[string]string // l2 denom -> base denom
	Bal       ledger
	Supply    map[string]*big.Int
	Vals      map[string]*mVal // by operator
	Last      map[string]int64 // last powers by operator
	Bridge    *opchildtypes.BridgeInfo
	Blocked   map[string]bool      // address bytes that cannot receive funds
	MayPlain  map[string]bool      // blocked addresses a zero-amount deposit was sent to (the handler creates a plain account there)
	AcctSeq   map[string]uint64    // hook signer label -> account sequence
	AcctNum   map[string]uint64    // hook signer label -> account number
	hooks     map[string]*hookSpec // payload hex -> spec
	SeqUnsure map[string]bool      // hook signer label -> sequence not known until the end of the block
	// credited / refunded bookkeeping per denom (C09)
	Credited  map[string]*big.Int
	Withdrawn map[string]*big.Int
}

func newModelL2(prop, authority string) *modelL2 {
	return &modelL2{Prop: prop, Authority: authority, NextL1Seq: 1, NextL2Seq: 1, Pairs: map[string]string{}, Bal: ledger{}, Supply: map[string]*big.Int{},
		Vals: map[string]*mVal{}, Last: map[string]int64{}, Blocked: map[string]bool{}, MayPlain: map[string]bool{}, AcctSeq: map[string]uint64{}, AcctNum: map[string]uint64{},
		hooks: map[string]*hookSpec{}, SeqUnsure: map[string]bool{}, Credited: map[string]*big.Int{}, Withdrawn: map[string]*big.Int{}}
}

func (m *modelL2) clone() *modelL2 {
	o := newModelL2(m.Prop, m.Authority)
	o.SecpVals = m.SecpVals
	o.HistQuirk = m.HistQuirk
	o.Params = m.Params
	o.Params.BridgeExecutors = append([]string{}, m.Params.BridgeExecutors...)
	o.Params.FeeWhitelist = append([]string{}, m.Params.FeeWhitelist...)
	o.NextL1Seq, o.NextL2Seq = m.NextL1Seq, m.NextL2Seq
	for k, v := range m.Pairs {
		o.Pairs[k] = v
	}
	o.Bal = m.Bal.clone()
	for k, v := range m.Supply {
		o.Supply[k] = new(big.Int).Set(v)
	}
	for k, v := range m.Vals {
		c := *v
		o.Vals[k] = &c
	}
	for k, v := range m.Last {
		o.Last[k] = v
	}
	if m.Bridge != nil {
		b := *m.Bridge
		o.Bridge = &b
	}
	o.Blocked = m.Blocked
	o.MayPlain = m.MayPlain
	for k, v := range m.AcctSeq {
		o.AcctSeq[k] = v
	}
	o.AcctNum = m.AcctNum
	o.hooks = m.hooks
	for k, v := range m.SeqUnsure {
		o.SeqUnsure[k] = v
	}
	for k, v := range m.Credited {
		o.Credited[k] = new(big.Int).Set(v)
	}
	for k, v := range m.Withdrawn {
		o.Withdrawn[k] = new(big.Int).Set(v)
	}
	return o
}

func (m *modelL2) supplyAdd(denom string, d *big.Int) {
	v, ok := m.Supply[denom]
	if !ok {
		v = new(big.Int)
		m.Supply[denom] = v
	}
	v.Add(v, d)
}

func bump(mp map[string]*big.Int, k string, d *big.Int) {
	v, ok := mp[k]
	if !ok {
		v = new(big.Int)
		mp[k] = v
	}
	v.Add(v, d)
}

func (m *modelL2) isExecutor(s string) bool {
	a, ok := validAddr(s)
	if !ok {
		return false
	}
	for _, e := range m.Params.BridgeExecutors {
		if b, ok := validAddr(e); ok && bytes.Equal(a, b) {
			return true
		}
	}
	return false
}

func (m *modelL2) valOps() []string {
	ops := make([]string, 0, len(m.Vals))
	for k := range m.Vals {
		ops = append(ops, k)
	}
	sort.Slice(ops, func(i, j int) bool { return bytes.Compare(m.Vals[ops[i]].OpBytes, m.Vals[ops[j]].OpBytes) < 0 })
	return ops
}

func (m *modelL2) valByKey(pk []byte) *mVal {
	for _, op := range m.valOps() {
		if bytes.Equal(m.Vals[op].PubKey, pk) {
			return m.Vals[op]
		}
	}
	return nil
}

func (m *modelL2) bonded() int {
	n := 0
	for _, v := range m.Vals {
		if v.Power > 0 {
			n++
		}
	}
	return n
}

var (
	ownL2Deposit  = []string{"C06", "C07", "C08", "C09"}
	ownL2Withdraw = []string{"C09", "C08", "C04"}
	ownL2Auth     = []string{"C12"}
	ownL2Val      = []string{"C13", "C14"}
)

// step is the single entry point of the L2 model.
func (m *modelL2) step(msg sdk.Msg, bc blockCtx, faultFired bool) stepOut {
	switch x := msg.(type) {
	case *opchildtypes.MsgFinalizeTokenDeposit:
		return m.stepDeposit(x, bc, faultFired)
	case *opchildtypes.MsgInitiateTokenWithdrawal:
		return m.stepWithdraw(x, bc)
	case *banktypes.MsgSend:
		return m.stepSend(x, bc)
	case *opchildtypes.MsgAddValidator:
		return m.stepAddVal(x, bc)
	case *opchildtypes.MsgRemoveValidator:
		return m.stepRemoveVal(x, bc)
	case *opchildtypes.MsgUpdateParams:
		return m.stepParams(x, bc)
	case *opchildtypes.MsgSpendFeePool:
		return m.stepSpendFeePool(x, bc)
	case *opchildtypes.MsgSetBridgeInfo:
		return m.stepSetBridgeInfo(x, bc)
	case *opchildtypes.MsgExecuteMessages:
		return m.stepExecute(x, bc)
	}
	return stepOut{P: pred{Kind: either, Note: "unmodelled message"}}
}

// ---- deposit finalisation ----
func (m *modelL2) stepDeposit(x *opchildtypes.MsgFinalizeTokenDeposit, bc blockCtx, faultFired bool) stepOut {
	if a, ok := validAddr(x.To); ok && m.Blocked[string(a)] && !x.Amount.IsPositive() {
		m.MayPlain[string(a)] = true
	}
	var p pred
	if _, ok := validAddr(x.Sender); !ok || len(x.From) == 0 || !x.Amount.IsValid() || sdk.ValidateDenom(x.BaseDenom) != nil || x.Sequence == 0 || x.Height == 0 {
		p.failBecause("l2deposit.invalid", "invalid-finalize-deposit-msg", "C06", "C07")
		return stepOut{P: p}
	}
	if !m.isExecutor(x.Sender) {
		p.failBecause("auth.finalize-deposit", "finalize-deposit-by-non-executor", "C12", "C06")
		return stepOut{P: p}
	}
	if x.Sequence > m.NextL1Seq {
		p.failBecause("l2deposit.sequence-ahead", "deposit-sequence-ahead", "C06", "C08")
		return stepOut{P: p}
	}
	if x.Sequence < m.NextL1Seq {
		// already processed: NOOP, no state change, no event
		return stepOut{P: p, OnSuccess: func(res *txRes) []mismatch {
			var out []mismatch
			if len(res.Resps) == 1 {
				if r, ok := res.Resps[0].(*opchildtypes.MsgFinalizeTokenDepositResponse); ok && r.Result != opchildtypes.NOOP {
					out = append(out, mm("l2deposit.replay-not-noop", "replayed-deposit-not-noop", []string{"C06", "C08"}, "deposit sequence %d (next is %d) answered %s, want NOOP", x.Sequence, m.NextL1Seq, r.Result))
				}
			}
			if n := len(attrsOf(res, "finalize_token_deposit")) + len(attrsOf(res, "initiate_token_withdrawal")) + len(attrsOf(res, "coinbase")); n != 0 {
				out = append(out, mm("l2deposit.replay-has-effects", "replayed-deposit-emits-events", []string{"C06", "C08"}, "replayed deposit sequence %d emitted %d deposit/withdrawal/mint events", x.Sequence, n))
			}
			return out
		}}
	}
	// the expected sequence: the message must succeed with outcome (a) credit or (b) refund
	to, okTo := validAddr(x.To)
	expect := triYes // (a)
	if !okTo || (m.Blocked[string(to)] && x.Amount.IsPositive()) {
		expect = triNo // (b)
	}
	var hs *hookSpec
	hookRuns := len(x.Data) > 0 && expect == triYes && m.Params.HookMaxGas > 0
	if len(x.Data) > 0 && expect == triYes {
		hs = m.hooks[hex.EncodeToString(x.Data)]
		switch {
		case m.Params.HookMaxGas == 0:
			expect = triNo
		case hs == nil:
			expect = triBand
		case hs.Class == "hungry":
			// 150 transfers: whether they fit the allowance is the implementation's gas schedule, not the model's business
			expect = triBand
			if !m.SeqUnsure[hs.Signer] && (hs.Seq != m.AcctSeq[hs.Signer] || m.evalGoodHook(hs, to, x.Amount) == triNo) {
				expect = triNo
			}
		case hs.Class == "wdhook" && m.SeqUnsure[hs.Signer]:
			expect = triBand // the signer's account sequence is not known until the end of the block
		case hs.Class == "wdhook":
			expect = triNo
			if hs.Seq == m.AcctSeq[hs.Signer] {
				// the denom pair of this deposit is registered before the hook runs
				sc := m.clone()
				if _, ok := sc.Pairs[x.Amount.Denom]; !ok {
					sc.Pairs[x.Amount.Denom] = x.BaseDenom
				}
				if x.Amount.IsPositive() {
					sc.Bal.add(to, x.Amount.Denom, x.Amount.Amount.BigInt())
				}
				if so := sc.stepWithdraw(hs.Withdraw, bc); so.P.Kind == mustSucceed && m.evalGoodHook(hs, to, x.Amount) != triNo {
					expect = triYes
					if m.Params.HookMaxGas < uint64(300_000+120_000*len(hs.Sends)) {
						expect = triBand
					}
				}
			}
		case hs.Class == "nested":
			// the payload relays the deposit that is being finalized: for a signer who is a bridge executor that is a
			// replay of a processed sequence (a no-op), for anybody else an unauthorised message (the hook fails)
			switch {
			case m.SeqUnsure[hs.Signer]:
				expect = triBand
			case hs.Seq != m.AcctSeq[hs.Signer] || !m.isExecutor(sdk.AccAddress(keyAddrOf(hs.Signer)).String()):
				expect = triNo
			case m.Params.HookMaxGas < 200_000:
				expect = triBand
			default:
				expect = triYes
			}
		case hs.Class != "good":
			expect = triNo
		case m.SeqUnsure[hs.Signer]:
			expect = triBand
		case hs.Seq != m.AcctSeq[hs.Signer]:
			expect = triNo
		default:
			expect = m.evalGoodHook(hs, to, x.Amount)
		}
	}
	if faultFired {
		expect = triBand
	}
	return stepOut{P: p, OnSuccess: func(res *txRes) []mismatch {
		var out []mismatch
		own := []string{"C07", "C06", "C08", "C09"}
		if len(res.Resps) == 1 {
			if r, ok := res.Resps[0].(*opchildtypes.MsgFinalizeTokenDepositResponse); ok && r.Result != opchildtypes.SUCCESS {
				out = append(out, mm("l2deposit.not-processed", "expected-deposit-not-success", own, "deposit at the expected sequence %d answered %s", x.Sequence, r.Result))
				return out
			}
		}
		seq := m.NextL1Seq
		m.NextL1Seq++
		if _, ok := m.Pairs[x.Amount.Denom]; !ok {
			m.Pairs[x.Amount.Denom] = x.BaseDenom
		}
		evs := attrsOf(res, "finalize_token_deposit")
		if len(evs) != 1 {
			out = append(out, mm("l2deposit.event-count", "finalize-deposit-event-count", own, "%d finalize_token_deposit events for sequence %d, want exactly 1", len(evs), seq))
			return out
		}
		out = append(out, expectAttrs(evs[0], map[string]string{"l1_sequence": strconv.FormatUint(seq, 10), "sender": x.From, "recipient": x.To,
			"denom": x.Amount.Denom, "base_denom": x.BaseDenom, "amount": x.Amount.Amount.String(), "finalize_height": strconv.FormatUint(x.Height, 10)}, "l2deposit.event", own)...)
		wevs := attrsOf(res, "initiate_token_withdrawal")
		credited := evs[0]["success"] == "true"
		hookWd := 0
		if credited && hookRuns && hs != nil && hs.Class == "wdhook" {
			hookWd = 1 // the withdrawal the hook itself performed (checked below)
		}
		if credited && len(wevs) != hookWd {
			if hookWd == 1 {
				return append(out, mm("withdraw.event-count", "hook-withdrawal-not-announced", []string{"C09", "C08", "C04", "C07"}, "deposit %d was credited and its hook performed a withdrawal, but %d initiate_token_withdrawal events were emitted", seq, len(wevs)))
			}
			out = append(out, mm("l2deposit.mixed-outcome", "credit-and-refund", own, "deposit %d reports success but also recorded %d refund withdrawal(s)", seq, len(wevs)))
			return out
		}
		if !credited && len(wevs) != 1 {
			out = append(out, mm("l2deposit.mixed-outcome", "failed-deposit-refund-count", own, "deposit %d reports failure (%s) but recorded %d refund withdrawals, want exactly 1", seq, evs[0]["reason"], len(wevs)))
			return out
		}
		if expect == triYes && !credited {
			out = append(out, mm("l2deposit.unexpected-refund", "creditable-deposit-refunded", own, "deposit %d to a valid recipient (hook expected to succeed) was refunded: %s", seq, evs[0]["reason"]))
			return out
		}
		if expect == triNo && credited {
			out = append(out, mm("l2deposit.unexpected-credit", "uncreditable-deposit-credited", own, "deposit %d (recipient %q, hook class %v) was credited although it cannot be", seq, x.To, hs))
			return out
		}
		amt := x.Amount.Amount.BigInt()
		// the hook signer's account sequence is consumed whenever the payload passed authentication
		if hookRuns && hs != nil && hs.authenticates() {
			if faultFired || m.Params.HookMaxGas < 100_000 {
				m.SeqUnsure[hs.Signer] = true
			} else if !m.SeqUnsure[hs.Signer] && hs.Seq == m.AcctSeq[hs.Signer] {
				m.AcctSeq[hs.Signer]++
			}
		}
		if credited {
			if x.Amount.IsPositive() {
				m.Bal.add(to, x.Amount.Denom, amt)
				m.supplyAdd(x.Amount.Denom, amt)
				bump(m.Credited, x.Amount.Denom, amt)
			}
			if hookRuns && hs != nil && hs.Class == "wdhook" {
				// a withdrawal performed by a hook is a recorded withdrawal like any other: burnt, sequenced, announced
				so := m.stepWithdraw(hs.Withdraw, bc)
				if so.OnSuccess != nil {
					for _, z := range so.OnSuccess(&txRes{OK: true, Events: res.Events}) {
						z.Key = "hook-withdrawal-not-announced"
						z.Owners = []string{"C09", "C08", "C04", "C07"}
						out = append(out, z)
					}
				}
			}
			if hookRuns && hs != nil && (hs.Class == "good" || hs.Class == "hungry" || hs.Class == "wdhook") {
				signer := []byte(keyAddrOf(hs.Signer))
				for _, s := range hs.Sends {
					m.Bal.add(signer, s.Denom, new(big.Int).Neg(s.Amount))
					m.Bal.add(s.To, s.Denom, s.Amount)
				}
			}
		} else {
			l2seq := m.NextL2Seq
			m.NextL2Seq++
			out = append(out, expectAttrs(wevs[0], map[string]string{"from": x.To, "to": x.From, "denom": x.Amount.Denom,
				"base_denom": m.Pairs[x.Amount.Denom], "amount": x.Amount.Amount.String(), "l2_sequence": strconv.FormatUint(l2seq, 10)}, "l2deposit.refund-event", own)...)
		}
		return out
	}}
}

// evalGoodHook decides whether a well-formed hook can succeed now.
func (m *modelL2) evalGoodHook(hs *hookSpec, to []byte, dep sdk.Coin) tri {
	signer := []byte(keyAddrOf(hs.Signer))
	// replay the transfers one after the other on the signer's balances (a transfer to oneself nets to zero)
	have := map[string]*big.Int{}
	bal := func(d string) *big.Int {
		if v, ok := have[d]; ok {
			return v
		}
		v := new(big.Int).Set(m.Bal.get(signer, d))
		if bytes.Equal(signer, to) && d == dep.Denom {
			v.Add(v, dep.Amount.BigInt())
		}
		have[d] = v
		return v
	}
	if hs.Withdraw != nil {
		b := bal(hs.Withdraw.Amount.Denom)
		if b.Cmp(hs.Withdraw.Amount.Amount.BigInt()) < 0 {
			return triNo
		}
		b.Sub(b, hs.Withdraw.Amount.Amount.BigInt())
	}
	for _, s := range hs.Sends {
		if m.Blocked[string(s.To)] {
			return triNo
		}
		b := bal(s.Denom)
		if b.Cmp(s.Amount) < 0 {
			return triNo
		}
		if !bytes.Equal(s.To, signer) {
			b.Sub(b, s.Amount)
		}
	}
	if m.Params.HookMaxGas < uint64(150_000+120_000*len(hs.Sends)) {
		return triBand // may or may not fit the allowance
	}
	return triYes
}

// ---- user withdrawal ----
func (m *modelL2) stepWithdraw(x *opchildtypes.MsgInitiateTokenWithdrawal, bc blockCtx) stepOut {
	var p pred
	sender, ok := validAddr(x.Sender)
	if !ok || len(x.To) == 0 || !x.Amount.IsValid() || !x.Amount.IsPositive() {
		p.failBecause("withdraw.invalid", "invalid-withdraw-msg", "C09")
		return stepOut{P: p}
	}
	if m.Bal.get(sender, x.Amount.Denom).Cmp(x.Amount.Amount.BigInt()) < 0 {
		p.failBecause("withdraw.insufficient", "withdraw-more-than-balance", "C09")
	}
	base, bridged := m.Pairs[x.Amount.Denom]
	if !bridged {
		p.failBecause("withdraw.non-l1-token", "withdraw-non-bridged-denom", "C09")
	}
	if !x.Amount.Amount.IsUint64() && p.Kind != mustFail {
		if m.Prop == "C04" || m.Prop == "C08" {
			p.failBecause("withdraw.amount-not-claimable", "amount-over-64-bits", "C04", "C08")
		} else {
			p.Kind = either
		}
	}
	return stepOut{P: p, OnSuccess: func(res *txRes) []mismatch {
		var out []mismatch
		amt := x.Amount.Amount.BigInt()
		m.Bal.add(sender, x.Amount.Denom, new(big.Int).Neg(amt))
		m.supplyAdd(x.Amount.Denom, new(big.Int).Neg(amt))
		bump(m.Withdrawn, x.Amount.Denom, amt)
		seq := m.NextL2Seq
		m.NextL2Seq++
		if len(res.Resps) == 1 {
			if r, ok := res.Resps[0].(*opchildtypes.MsgInitiateTokenWithdrawalResponse); ok && r.Sequence != seq {
				out = append(out, mm("withdraw.sequence", "withdraw-sequence", ownL2Withdraw, "withdrawal returned L2 sequence %d, model expects %d", r.Sequence, seq))
			}
		}
		evs := attrsOf(res, "initiate_token_withdrawal")
		if len(evs) != 1 {
			out = append(out, mm("withdraw.event-count", "withdraw-event-count", ownL2Withdraw, "%d initiate_token_withdrawal events", len(evs)))
		} else {
			out = append(out, expectAttrs(evs[0], map[string]string{"from": x.Sender, "to": x.To, "denom": x.Amount.Denom, "base_denom": base,
				"amount": x.Amount.Amount.String(), "l2_sequence": strconv.FormatUint(seq, 10)}, "withdraw.event", ownL2Withdraw)...)
		}
		return out
	}}
}

func (m *modelL2) stepSend(x *banktypes.MsgSend, bc blockCtx) stepOut {
	var p pred
	from, ok1 := validAddr(x.FromAddress)
	to, ok2 := validAddr(x.ToAddress)
	if !ok1 || !ok2 || !x.Amount.IsValid() || !x.Amount.IsAllPositive() {
		p.failBecause("send.invalid", "invalid-send", "C01", "C09")
		return stepOut{P: p}
	}
	if m.Blocked[string(to)] {
		p.failBecause("send.blocked", "send-to-blocked", "C09")
	}
	for _, c := range x.Amount {
		if m.Bal.get(from, c.Denom).Cmp(c.Amount.BigInt()) < 0 {
			p.failBecause("send.insufficient", "send-insufficient", "C09")
		}
	}
	return stepOut{P: p, OnSuccess: func(res *txRes) []mismatch {
		for _, c := range x.Amount {
			m.Bal.add(from, c.Denom, new(big.Int).Neg(c.Amount.BigInt()))
			m.Bal.add(to, c.Denom, c.Amount.BigInt())
		}
		return nil
	}}
}

// ---- validators ----
func pubKeyOf(a *codectypes.Any) (cryptotypes.PubKey, bool) {
	if a == nil {
		return nil, false
	}
	pk, ok := a.GetCachedValue().(cryptotypes.PubKey)
	return pk, ok && pk != nil
}

func (m *modelL2) stepAddVal(x *opchildtypes.MsgAddValidator, bc blockCtx) stepOut {
	var p pred
	op, err := sdk.ValAddressFromBech32(x.ValidatorAddress)
	pk, okPk := pubKeyOf(x.Pubkey)
	if _, ok := validAddr(x.Authority); !ok || err != nil || !okPk {
		p.failBecause("addval.invalid", "invalid-add-validator-msg", "C13", "C12")
		return stepOut{P: p}
	}
	if x.Authority != m.Authority {
		p.failBecause("auth.add-validator", "add-validator-by-non-authority", "C12")
	}
	if len(m.Vals) >= int(m.Params.MaxValidators) {
		p.failBecause("addval.cap", "add-validator-over-cap", "C13")
	}
	if _, dup := m.Vals[x.ValidatorAddress]; dup {
		p.failBecause("addval.operator-exists", "add-validator-operator-exists", "C13")
	}
	if m.valByKey(pk.Bytes()) != nil {
		p.failBecause("addval.key-exists", "add-validator-key-exists", "C13")
	}
	if pk.Type() != "ed25519" && !(m.SecpVals && pk.Type() == "secp256k1") {
		p.failBecause("addval.key-type", "add-validator-key-type", "C13")
	}
	return stepOut{P: p, OnSuccess: func(res *txRes) []mismatch {
		m.Vals[x.ValidatorAddress] = &mVal{Operator: x.ValidatorAddress, OpBytes: op, PubKey: pk.Bytes(), Power: 1, Moniker: x.Moniker}
		return nil
	}}
}

func (m *modelL2) stepRemoveVal(x *opchildtypes.MsgRemoveValidator, bc blockCtx) stepOut {
	var p pred
	_, err := sdk.ValAddressFromBech32(x.ValidatorAddress)
	if _, ok := validAddr(x.Authority); !ok || err != nil {
		p.failBecause("rmval.invalid", "invalid-remove-validator-msg", "C13", "C12")
		return stepOut{P: p}
	}
	if x.Authority != m.Authority {
		p.failBecause("auth.remove-validator", "remove-validator-by-non-authority", "C12")
	}
	v := m.Vals[x.ValidatorAddress]
	if v == nil {
		p.failBecause("rmval.unknown", "remove-unknown-validator", "C13")
	}
	return stepOut{P: p, OnSuccess: func(res *txRes) []mismatch {
		if v != nil {
			v.Power = 0
		}
		return nil
	}}
}

// paramsValid returns "" for acceptable parameters, else which part is not and whose business that is.
func (m *modelL2) paramsValid(pr *opchildtypes.Params) (string, []string) {
	if pr == nil {
		return "nil", nil
	}
	if _, ok := validAddr(pr.Admin); !ok {
		return "admin", []string{"C12"}
	}
	for _, e := range pr.BridgeExecutors {
		if _, ok := validAddr(e); !ok {
			return "bridge-executor", []string{"C12"}
		}
	}
	for _, e := range pr.FeeWhitelist {
		if _, ok := validAddr(e); !ok {
			return "fee-whitelist", []string{"C20"}
		}
	}
	if pr.MinGasPrices.Validate() != nil {
		return "min-gas-prices", []string{"C20"}
	}
	if pr.MaxValidators == 0 {
		return "max-validators", []string{"C13"}
	}
	return "", nil
}

func (m *modelL2) stepParams(x *opchildtypes.MsgUpdateParams, bc blockCtx) stepOut {
	var p pred
	if _, ok := validAddr(x.Authority); !ok {
		p.failBecause("params.invalid", "invalid-params-msg", "C12")
		return stepOut{P: p}
	}
	if why, owners := m.paramsValid(x.Params); why != "" {
		p.failBecause("params.invalid", "invalid-params:"+why, owners...)
		return stepOut{P: p}
	}
	if x.Authority != m.Authority {
		p.failBecause("auth.update-params", "update-params-by-non-authority", "C12")
	}
	if int(x.Params.MaxValidators) < len(m.Vals) {
		p.failBecause("params.max-validators-below-current", "max-validators-below-current", "C13")
	}
	return stepOut{P: p, OnSuccess: func(res *txRes) []mismatch {
		if m.Params.HistoricalEntries > 0 && x.Params.HistoricalEntries == 0 {
			// retention switched from k>0 to 0: the pruning loop inherited from the SDK then starts at a height
			// without a record and stops at once, so older records stay (DESIGN 14, outside the listed properties).
			// The generator avoids the switch, but a parameter update built before another one took effect can
			// still amount to it; the retention rule is not judged for the rest of such a run.
			m.HistQuirk = true
		}
		m.Params = *x.Params
		m.Params.MinGasPrices = x.Params.MinGasPrices.Sort()
		return nil
	}}
}

func (m *modelL2) stepSpendFeePool(x *opchildtypes.MsgSpendFeePool, bc blockCtx) stepOut {
	var p pred
	rcpt, ok2 := validAddr(x.Recipient)
	if _, ok := validAddr(x.Authority); !ok || !ok2 || !x.Amount.IsValid() {
		p.failBecause("spend.invalid", "invalid-spend-msg", "C12")
		return stepOut{P: p}
	}
	if x.Authority != m.Authority {
		p.failBecause("auth.spend-fee-pool", "spend-fee-pool-by-non-authority", "C12")
	}
	fc := authtypes.NewModuleAddress(authtypes.FeeCollectorName)
	for _, c := range x.Amount {
		if m.Bal.get(fc, c.Denom).Cmp(c.Amount.BigInt()) < 0 {
			p.failBecause("spend.insufficient", "spend-insufficient", "C12")
		}
	}
	if m.Blocked[string(rcpt)] {
		p.failBecause("spend.blocked", "spend-to-blocked", "C12")
	}
	return stepOut{P: p, OnSuccess: func(res *txRes) []mismatch {
		for _, c := range x.Amount {
			m.Bal.add(fc, c.Denom, new(big.Int).Neg(c.Amount.BigInt()))
			m.Bal.add(rcpt, c.Denom, c.Amount.BigInt())
		}
		return nil
	}}
}

func bridgeInfoValid(bi opchildtypes.BridgeInfo) bool {
	c := bi.BridgeConfig
	return bi.BridgeId != 0 && len(bi.BridgeAddr) != 0 && len(c.Proposer) != 0 && len(c.Challenger) != 0 && c.BatchInfo.ChainType != 0 &&
		c.BatchInfo.Submitter != "" && c.FinalizationPeriod > 0 && c.SubmissionInterval != 0 && c.SubmissionStartHeight != 0
}

func (m *modelL2) stepSetBridgeInfo(x *opchildtypes.MsgSetBridgeInfo, bc blockCtx) stepOut {
	var p pred
	if _, ok := validAddr(x.Sender); !ok || !bridgeInfoValid(x.BridgeInfo) {
		p.Kind = either // validation details of the embedded config are not the property's subject
		if _, ok := validAddr(x.Sender); !ok {
			p.failBecause("bridgeinfo.invalid", "invalid-bridge-info-msg", "C12", "C15")
		}
		if x.BridgeInfo.BridgeId == 0 || len(x.BridgeInfo.BridgeAddr) == 0 {
			p.failBecause("bridgeinfo.invalid", "invalid-bridge-info-msg", "C12", "C15")
		}
	}
	if !m.isExecutor(x.Sender) {
		p.failBecause("auth.set-bridge-info", "set-bridge-info-by-non-executor", "C12")
	}
	if m.Bridge != nil {
		b := m.Bridge
		if b.BridgeId != x.BridgeInfo.BridgeId || b.BridgeAddr != x.BridgeInfo.BridgeAddr || b.L1ChainId != x.BridgeInfo.L1ChainId ||
			(b.L1ClientId != "" && b.L1ClientId != x.BridgeInfo.L1ClientId) {
			p.failBecause("bridgeinfo.repoint", "bridge-binding-repointed", "C12")
		}
	}
	return stepOut{P: p, OnSuccess: func(res *txRes) []mismatch {
		bi := x.BridgeInfo
		m.Bridge = &bi
		return nil
	}}
}

// ---- batched execution ----
func (m *modelL2) stepExecute(x *opchildtypes.MsgExecuteMessages, bc blockCtx) stepOut {
	var p pred
	if _, ok := validAddr(x.Sender); !ok || len(x.Messages) == 0 {
		p.failBecause("exec.invalid", "invalid-execute-msg", "C12")
		return stepOut{P: p}
	}
	if x.Sender != m.Params.Admin {
		p.failBecause("auth.execute-messages", "execute-messages-by-non-admin", "C12")
	}
	msgs, err := x.GetMsgs()
	if err != nil {
		p.failBecause("exec.invalid", "invalid-execute-msg", "C12")
		return stepOut{P: p}
	}
	// all-or-nothing on a scratch copy
	scratch := m.clone()
	var inner []stepOut
	for i, im := range msgs {
		signer, known := innerSigner(im)
		if !known {
			p.Kind = either
			return stepOut{P: p}
		}
		if signer != m.Authority {
			p.failBecause("exec.inner-signer", "inner-message-not-signed-by-authority", "C12")
			break
		}
		so := scratch.step(im, bc, false)
		inner = append(inner, so)
		if so.P.Kind == mustFail {
			for _, r := range so.P.Reasons {
				p.failBecause("exec.inner-fails:"+r.Inv, fmt.Sprintf("inner-%d-%s", i, r.Key), append([]string{"C12"}, r.Owners...)...)
			}
			break
		}
		if so.P.Kind == either && p.Kind == mustSucceed {
			p.Kind = either
		}
		if so.OnSuccess != nil {
			so.OnSuccess(&txRes{OK: true})
		}
	}
	return stepOut{P: p, OnSuccess: func(res *txRes) []mismatch {
		for _, im := range msgs {
			so := m.step(im, bc, false)
			if so.OnSuccess != nil {
				so.OnSuccess(&txRes{OK: true})
			}
		}
		return nil
	}}
}

// innerSigner returns the declared signer of the message types the simulator
// puts inside MsgExecuteMessages.
func innerSigner(msg sdk.Msg) (string, bool) {
	switch x := msg.(type) {
	case *opchildtypes.MsgAddValidator:
		return x.Authority, true
	case *opchildtypes.MsgRemoveValidator:
		return x.Authority, true
	case *opchildtypes.MsgUpdateParams:
		return x.Authority, true
	case *opchildtypes.MsgSpendFeePool:
		return x.Authority, true
	case *opchildtypes.MsgFinalizeTokenDeposit:
		return x.Sender, true
	case *opchildtypes.MsgInitiateTokenWithdrawal:
		return x.Sender, true
	case *opchildtypes.MsgSetBridgeInfo:
		return x.Sender, true
	case *banktypes.MsgSend:
		return x.FromAddress, true
	}
	return "", false
}

// endBlockExpected applies the end-of-block validator bookkeeping to the model
// and returns the set of positive-power validators (pubkey hex -> power).
func (m *modelL2) endBlock() map[string]int64 {
	for _, op := range m.valOps() {
		v := m.Vals[op]
		if v.Power > 0 {
			m.Last[op] = v.Power
		}
	}
	var gone []string
	for op := range m.Last {
		if v := m.Vals[op]; v == nil || v.Power <= 0 {
			gone = append(gone, op)
		}
	}
	sort.Strings(gone)
	for _, op := range gone {
		delete(m.Last, op)
		delete(m.Vals, op)
	}
	// a validator removed before it was ever bonded must also be gone by the end of the block (C13)
	for _, op := range m.valOps() {
		if m.Vals[op].Power <= 0 {
			delete(m.Vals, op)
		}
	}
	out := map[string]int64{}
	for _, v := range m.Vals {
		out[hex.EncodeToString(v.PubKey)] = v.Power
	}
	return out
}

func pkBytes(pk cmtcrypto.PublicKey) []byte {
	if ed := pk.GetEd25519(); ed != nil {
		return ed
	}
	return pk.GetSecp256K1()
}
