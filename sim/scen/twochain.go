package scen

import (
	"encoding/hex"
	"fmt"
	"math/big"
	"sort"
	"strconv"
	"strings"
	"time"

	"cosmossdk.io/math"
	abci "github.com/cometbft/cometbft/abci/types"
	sdk "github.com/cosmos/cosmos-sdk/types"
	authtypes "github.com/cosmos/cosmos-sdk/x/auth/types"
	banktypes "github.com/cosmos/cosmos-sdk/x/bank/types"

	opchildtypes "github.com/initia-labs/OPinit/x/opchild/types"
	ophosttypes "github.com/initia-labs/OPinit/x/ophost/types"

	"opsim/core"
	"opsim/node"
	"opsim/prover"
)

// ---------------------------------------------------------------------------
// The whole bridge in one process: a real L1 node and a real L2 node, the
// off-chain parties as simulated actors (users, 1-3 executors, proposer,
// challenger, claimers), and a simulated network between actors and mempools.
// The two chains talk only through events that the actors parse and turn into
// messages.  Both lock-step models run; on top of them the peg equation of C08
// is evaluated after every block of either chain from parsed events and public
// queries, and a fault-free drain must complete within a step budget.
// ---------------------------------------------------------------------------

type tcProfile struct {
	Prop      string
	Steps     [2]int
	Faults    bool // network faults, partitions, crashes
	Challenge int  // weight of challenger deletions
	BigTrees  bool // C04: many withdrawals per output, every leaf claimed
	BigAmts   bool
	Hooks     int
	BadRcpt   int
	Admin     bool // background admin traffic on both chains (C16 / C18)
	Others    int  // weight of "another rollup's bridge on the same L1 does something" (create / deposit / propose / delete / claim / role change); also: up to two such bridges exist before this one
	Reimport  int  // weight of "restart a chain from its exported genesis" (C16)
	Replicas  bool // run every block on independent replicas too (C18)
	Plans     bool // executor-change plans on L2 (several validators leave in one block)
	WWithdraw int  // weight of user withdrawals (default 8)
	WPropose  int  // weight of proposals (default 4); lower = larger trees
	DepFault  int  // % of relay txs with a dependency fault armed in the L2's bank / account keeper
}

type depEvent struct {
	Seq              uint64
	From, To         string
	L1Denom, L2Denom string
	Amount           *big.Int
	Data             []byte
	L1Height         int64
}

type wdEvent struct {
	Seq              uint64
	From, To         string
	Denom, BaseDenom string
	Amount           *big.Int
	L2Height         int64
	Claimable        bool // positive amount, valid L1 recipient, amount representable
}

type netMsg struct {
	Call  int64 // history stamp of the invocation
	Chain int   // 1 or 2
	Msgs  []sdk.Msg
	Kind  string
	Desc  string
	At    time.Time // delivery time (sim clock)
	From  string    // actor name (for partitions)
	Fault string    // dependency fault armed through the tx memo (L2 relays)
}

type memTx struct {
	Call  int64
	Msgs  []sdk.Msg
	Bytes []byte
	Kind  string
	Desc  string
	Fault string
}

type execActor struct {
	Name        string
	Addr        string
	SeenL1      int // how many L1 deposit events it has observed
	SeenL2      int
	Partitioned bool
}

type tcOutput struct {
	Index  uint64
	Leaves []int // indices into tc.wds
	C      *commitment
}

type twoChain struct {
	r                    *core.Run
	p                    *tcProfile
	L1                   *l1World
	L2                   *l2World
	bridge               uint64
	proposer, challenger string

	deps  []depEvent          // by sequence-1
	wds   []wdEvent           // by l2 sequence-1
	third map[string]*big.Int // third-party sends into the escrow per L1 denom

	execs      []*execActor
	inflight   []netMsg
	mem1, mem2 []memTx
	simNow     time.Time
	outputs    map[uint64]*tcOutput      // accepted, not deleted
	proposed   map[prover.Hash]*tcOutput // by root, awaiting acceptance
	claimSent  map[int]int               // withdrawal index -> claims sent
	initialL1  map[string]*big.Int       // total L1 supply per denom
	draining   bool
	finPeriod  time.Duration
	evSeq      int64    // global event sequence number (history stamps)
	hist       []histOp // client-visible history of relay and claim transactions
}

func (tc *twoChain) fail(owners []string, inv, key, format string, a ...interface{}) *core.Violation {
	for _, o := range owners {
		if o == tc.p.Prop {
			return tc.r.Viol(inv, key, format, a...)
		}
	}
	panic(core.Abort{Reason: "foreign:" + inv})
}

func newTwoChain(r *core.Run, p *tcProfile) (*twoChain, *core.Violation) {
	tc := &twoChain{r: r, p: p, third: map[string]*big.Int{}, outputs: map[uint64]*tcOutput{}, proposed: map[prover.Hash]*tcOutput{}, claimSent: map[int]int{}, initialL1: map[string]*big.Int{}}
	l1p := &l1Profile{Prop: p.Prop, MaxTx: 4, Periods: []time.Duration{10 * time.Second}, W: map[string]int{}, NonTriv: func(*l1World) bool { return true }}
	tc.L1 = newL1World(r, l1p)
	l2p := &l2Profile{Prop: p.Prop, MaxTx: 4, Hooks: p.Hooks, BadRcpt: p.BadRcpt, W: map[string]int{}, NonTriv: func(*l2World) bool { return true }}
	decoys := 0
	if p.Others > 0 {
		decoys = r.Intn(3)
	}
	tc.bridge = uint64(1 + decoys)
	tc.L2 = newL2WorldOpt(r, l2p, tc.bridge, tc.L1.denoms)
	tc.L2.l1Rcpts = tc.L1.ustr
	tc.L2.p.Plans = p.Plans
	if p.Replicas {
		tc.L1.addReplicas(tc.L1.genesis)
		tc.L2.addReplicas()
	}
	tc.simNow = tc.L1.now
	if tc.L2.now.After(tc.simNow) {
		tc.simNow = tc.L2.now
	}
	for _, d := range tc.L1.denoms {
		tot := new(big.Int)
		for a := range tc.L1.m.Bal {
			tot.Add(tot, tc.L1.m.Bal.get([]byte(a), d))
		}
		tc.initialL1[d] = tot
	}
	// other rollups' bridges that exist before ours
	for i, tries := 0, 0; i < decoys && tries < 8; tries++ {
		save := tc.L1.p.W
		tc.L1.p.W = map[string]int{"create": 1}
		dm, kind, desc := tc.L1.genOp(tc.L1.m.clone(), blockCtx{Height: tc.L1.n.Height() + 1, Time: tc.L1.now})
		tc.L1.p.W = save
		if v := tc.blockL1([]memTx{tc.mk(1, []sdk.Msg{dm}, kind, "another rollup: "+desc)}, time.Second, ""); v != nil {
			return nil, v
		}
		i = len(tc.L1.m.Bridges) // a refused creation (half-filled form) is simply tried again
	}
	if tc.L1.m.NextBridgeID != tc.bridge {
		panic(core.Abort{Reason: "decoy-bridge-not-created"})
	}
	// create the bridge with dedicated proposer / challenger
	tc.proposer, tc.challenger = tc.L1.ustr[0], tc.L1.ustr[1%len(tc.L1.ustr)]
	tc.finPeriod = []time.Duration{2 * time.Second, 10 * time.Second, time.Hour}[r.Intn(3)]
	cfg := ophosttypes.BridgeConfig{Challenger: tc.challenger, Proposer: tc.proposer, BatchInfo: ophosttypes.BatchInfo{Submitter: tc.proposer, ChainType: 1},
		SubmissionInterval: time.Minute, FinalizationPeriod: tc.finPeriod, SubmissionStartHeight: 1, OracleEnabled: true}
	msg := &ophosttypes.MsgCreateBridge{Creator: tc.L1.ustr[0], Config: cfg}
	if v := tc.blockL1([]memTx{tc.mk(1, []sdk.Msg{msg}, "create", "bridge for the simulated L2")}, time.Second, ""); v != nil {
		return nil, v
	}
	if tc.L1.m.Bridges[tc.bridge] == nil {
		panic(core.Abort{Reason: "bridge-not-created"})
	}
	for i, e := range tc.L2.executors {
		tc.execs = append(tc.execs, &execActor{Name: fmt.Sprintf("executor%d", i), Addr: e})
	}
	r.Logf("two-chain world: finalization period %s, executors=%d, faults=%v", tc.finPeriod, len(tc.execs), p.Faults)
	return tc, nil
}

func (tc *twoChain) mk(chain int, msgs []sdk.Msg, kind, desc string) memTx {
	enc := tc.L1.enc
	bz, err := node.BuildTx(enc, msgs, node.TxOpts{})
	if err != nil {
		panic(err)
	}
	return memTx{Msgs: msgs, Bytes: bz, Kind: kind, Desc: desc}
}

// send hands a message to the simulated network.
func (tc *twoChain) send(chain int, from string, msgs []sdk.Msg, kind, desc string) {
	r := tc.r
	m := netMsg{Chain: chain, Msgs: msgs, Kind: kind, Desc: desc, From: from, At: tc.simNow, Call: tc.histInvoke(msgs)}
	if chain == 2 && (kind == "relay" || kind == "relaybatch") && tc.p.DepFault > 0 && !tc.draining && r.Chance(tc.p.DepFault, 100) {
		// the k-th bank / account keeper call of this relay fails or panics on the L2
		m.Fault = fmt.Sprintf("fault:%s:%d:%s", []string{"bank", "bank", "bank", "acct"}[r.Intn(4)], r.Intn(6), []string{"err", "panic"}[r.Intn(2)])
	}
	if tc.p.Faults && !tc.draining {
		switch r.Weighted([]int{12, 2, 2, 2}) {
		case 1:
			r.Fault("net.drop")
			r.Logf("net: DROP %s %s", kind, desc)
			return
		case 2:
			r.Fault("net.duplicate")
			d := m
			d.Call = tc.histInvoke(msgs) // a duplicate is an invocation of its own
			d.At = tc.simNow.Add(time.Duration(r.Intn(20)) * time.Second)
			tc.inflight = append(tc.inflight, d)
		case 3:
			r.Fault("net.delay")
			m.At = tc.simNow.Add(time.Duration(1+r.Intn(60)) * time.Second)
		}
	}
	tc.inflight = append(tc.inflight, m)
}

// deliver moves due messages into the target chain's mempool through CheckTx.
func (tc *twoChain) deliver(chain int) {
	var rest []netMsg
	for _, m := range tc.inflight {
		held := false
		for _, e := range tc.execs {
			if e.Name == m.From && e.Partitioned {
				held = true
			}
		}
		if m.Chain != chain || m.At.After(tc.simNow) || held {
			rest = append(rest, m)
			continue
		}
		t := tc.mk(chain, m.Msgs, m.Kind, m.Desc)
		if m.Fault != "" {
			bz, err := node.BuildTx(tc.L1.enc, m.Msgs, node.TxOpts{Memo: m.Fault})
			if err != nil {
				panic(err)
			}
			t.Bytes, t.Fault = bz, m.Fault
		}
		t.Call = m.Call
		var code uint32
		var log string
		if chain == 1 {
			res, err := tc.L1.n.App.CheckTx(&abci.RequestCheckTx{Tx: t.Bytes, Type: abci.CheckTxType_New})
			if err != nil {
				panic(err)
			}
			code, log = res.Code, res.Log
		} else {
			res, err := tc.L2.n.App.CheckTx(&abci.RequestCheckTx{Tx: t.Bytes, Type: abci.CheckTxType_New})
			if err != nil {
				panic(err)
			}
			code, log = res.Code, res.Log
		}
		if code != 0 {
			tc.r.Probe("mempool.rejected")
			if strings.Contains(log, "redundant") {
				tc.r.Probe("mempool.redundant-relay-filtered")
			}
			continue
		}
		if chain == 1 {
			tc.mem1 = append(tc.mem1, t)
		} else {
			tc.mem2 = append(tc.mem2, t)
		}
	}
	tc.inflight = rest
}

func (tc *twoChain) pickCrash() string {
	if tc.p.Replicas && !tc.draining && tc.r.Chance(1, 8) {
		// the main node sees an aborted optimistic execution; its replicas execute the block once
		return "aborted-optimistic-execution"
	}
	if tc.p.Faults && !tc.draining && tc.r.Chance(1, 12) {
		return []string{"before-finalize", "after-finalize-before-commit", "after-commit", "aborted-optimistic-execution"}[tc.r.Intn(4)]
	}
	return ""
}

// proposerOrder lets the scheduler choose which mempool txs go into the block and in which order.
func (tc *twoChain) proposerOrder(mem []memTx) (take, keep []memTx) {
	r := tc.r
	for _, t := range mem {
		if !tc.draining && tc.p.Faults && r.Chance(1, 10) {
			keep = append(keep, t)
		} else {
			take = append(take, t)
		}
	}
	if len(take) > 1 && r.Chance(1, 3) {
		i, j := r.Intn(len(take)), r.Intn(len(take))
		take[i], take[j] = take[j], take[i]
		tc.r.Fault("net.reorder")
	}
	if len(take) > 12 {
		keep = append(take[12:], keep...)
		take = take[:12]
	}
	return
}

func (tc *twoChain) advance(dt time.Duration) {
	tc.r.SimNS += int64(dt)
	tc.simNow = tc.simNow.Add(dt)
}

func (tc *twoChain) blockL1(txs []memTx, dt time.Duration, crash string) *core.Violation {
	tc.advance(dt)
	w := tc.L1
	T := w.now.Add(dt)
	if tc.simNow.After(T) {
		T = tc.simNow
	}
	bc := blockCtx{Height: w.n.Height() + 1, Time: T}
	var pts []pendingTx
	for _, t := range txs {
		pts = append(pts, pendingTx{Msg: t.Msgs[0], Bytes: t.Bytes, Kind: t.Kind, Desc: t.Desc})
	}
	if v := w.execBlock(bc, pts, nil, crash); v != nil {
		return v
	}
	if crash != "" {
		tc.mem1 = nil // the mempool does not survive a crash
	}
	tc.bookThirdParty(txs, w.lastRes)
	for i, t := range txs {
		tc.histReturn(t.Call, t.Msgs, w.lastRes.TxResults[i].Code == 0, nil)
	}
	// parse events the way an executor does
	for i, tr := range w.lastRes.TxResults {
		if tr.Code != 0 {
			continue
		}
		for _, a := range node.EventAttrs(tr.Events, "initiate_token_deposit") {
			if a["bridge_id"] != strconv.FormatUint(tc.bridge, 10) {
				continue
			}
			seq, _ := strconv.ParseUint(a["l1_sequence"], 10, 64)
			amt, ok := new(big.Int).SetString(a["amount"], 10)
			if !ok {
				return tc.fail([]string{"C08", "C10"}, "event.unparsable", "deposit-event-amount", "deposit event amount %q", a["amount"])
			}
			data, err := hex.DecodeString(a["data"])
			if err != nil {
				return tc.fail([]string{"C08", "C10"}, "event.unparsable", "deposit-event-data", "deposit event data %q", a["data"])
			}
			if seq != uint64(len(tc.deps))+1 {
				return tc.fail([]string{"C08", "C10"}, "event.sequence-gap", "deposit-event-sequence-gap", "L1 deposit events are not gap-free: got %d after %d", seq, len(tc.deps))
			}
			tc.deps = append(tc.deps, depEvent{Seq: seq, From: a["from"], To: a["to"], L1Denom: a["l1_denom"], L2Denom: a["l2_denom"], Amount: amt, Data: data, L1Height: bc.Height})
		}
		for _, a := range node.EventAttrs(tr.Events, "propose_output") {
			if a["bridge_id"] != strconv.FormatUint(tc.bridge, 10) {
				continue
			}
			idx, _ := strconv.ParseUint(a["output_index"], 10, 64)
			rb, _ := hex.DecodeString(a["output_root"])
			var root prover.Hash
			copy(root[:], rb)
			if o := tc.proposed[root]; o != nil {
				o.Index = idx
				tc.outputs[idx] = o
			}
		}
		for _, a := range node.EventAttrs(tr.Events, "delete_output") {
			if a["bridge_id"] != strconv.FormatUint(tc.bridge, 10) {
				continue
			}
			idx, _ := strconv.ParseUint(a["output_index"], 10, 64)
			for k := range tc.outputs {
				if k >= idx {
					delete(tc.outputs, k)
				}
			}
			tc.r.Probe("challenge.deleted")
		}
		_ = i
	}
	return tc.pegCheck("L1", bc.Height)
}

func (tc *twoChain) blockL2(txs []memTx, dt time.Duration, crash string) *core.Violation {
	tc.advance(dt)
	w := tc.L2
	T := w.now.Add(dt)
	if tc.simNow.After(T) {
		T = tc.simNow
	}
	bc := blockCtx{Height: w.n.Height() + 1, Time: T}
	w.planClass = ""
	w.histEntriesAtBegin = w.m.Params.HistoricalEntries
	for h := range w.histWritten {
		if h <= bc.Height-int64(w.histEntriesAtBegin) {
			delete(w.histWritten, h)
		}
	}
	if w.histEntriesAtBegin > 0 {
		w.histWritten[bc.Height] = true
	}
	var pts []l2Pending
	for _, t := range txs {
		pts = append(pts, l2Pending{Msgs: t.Msgs, Bytes: t.Bytes, Kind: t.Kind, Desc: t.Desc, Fault: t.Fault})
	}
	if v := w.execBlock(bc, pts, crash); v != nil {
		return v
	}
	if crash != "" {
		tc.mem2 = nil
	}
	for i, t := range txs {
		var resps []interface{}
		for _, rm := range node.DecodeResponses(w.enc, w.lastRes.TxResults[i].Data) {
			resps = append(resps, rm)
		}
		if t.Fault != "" && w.lastRes.TxResults[i].Code != 0 {
			// a relay that failed with a dependency fault armed had no effect and says nothing about the order
			// (the only relaxation under injected faults: such an operation may fail; what it returns when it
			// succeeds is judged like any other)
			continue
		}
		tc.histReturn(t.Call, t.Msgs, w.lastRes.TxResults[i].Code == 0, resps)
	}
	for _, tr := range w.lastRes.TxResults {
		if tr.Code != 0 {
			continue
		}
		for _, a := range node.EventAttrs(tr.Events, "initiate_token_withdrawal") {
			seq, _ := strconv.ParseUint(a["l2_sequence"], 10, 64)
			amt, ok := new(big.Int).SetString(a["amount"], 10)
			if !ok {
				return tc.fail([]string{"C08", "C09"}, "event.unparsable", "withdraw-event-amount", "withdrawal event amount %q", a["amount"])
			}
			if seq != uint64(len(tc.wds))+1 {
				return tc.fail([]string{"C08", "C09", "C04"}, "event.sequence-gap", "withdrawal-event-sequence-gap", "L2 withdrawal events are not gap-free: got %d after %d", seq, len(tc.wds))
			}
			_, okTo := validAddr(a["to"])
			wd := wdEvent{Seq: seq, From: a["from"], To: a["to"], Denom: a["denom"], BaseDenom: a["base_denom"], Amount: amt, L2Height: bc.Height}
			wd.Claimable = okTo && amt.Sign() > 0
			tc.wds = append(tc.wds, wd)
			u := withdrawal{Seq: seq, From: wd.From, To: wd.To, Denom: wd.BaseDenom}
			if amt.IsUint64() {
				u.Amount = amt.Uint64()
			}
			tc.L1.univ[tc.bridge] = append(tc.L1.univ[tc.bridge], u)
			if wd.Claimable && !amt.IsUint64() {
				return tc.fail([]string{"C04", "C08"}, "withdrawal.unclaimable-amount", "amount-over-64-bits",
					"L2 recorded withdrawal %d of %s%s to a valid L1 recipient, but an amount that does not fit 64 bits can never be committed in a leaf / finalized on L1", seq, amt, wd.BaseDenom)
			}
		}
	}
	return tc.pegCheck("L2", bc.Height)
}

// pegCheck evaluates the cross-chain solvency equation from parsed events and public queries.
func (tc *twoChain) pegCheck(where string, h int64) *core.Violation {
	ctx1, ctx2 := tc.L1.n.QueryCtx(), tc.L2.n.QueryCtx()
	q2, err := tc.L2.n.Querier().NextL1Sequence(ctx2, &opchildtypes.QueryNextL1SequenceRequest{})
	if err != nil {
		panic(err)
	}
	esc := sdk.AccAddress(prover.Escrow(tc.bridge))
	own := []string{"C08"}
	for _, d := range tc.L1.denoms {
		l2d := prover.L2Denom(tc.bridge, d)
		escrow := tc.L1.n.BK.GetBalance(ctx1, esc, d).Amount.BigInt()
		supply := tc.L2.n.BK.GetSupply(ctx2, l2d).Amount.BigInt()
		inflight := new(big.Int)
		for _, e := range tc.deps {
			if e.Seq >= q2.NextL1Sequence && e.L1Denom == d {
				inflight.Add(inflight, e.Amount)
			}
		}
		unpaid := new(big.Int)
		for _, wd := range tc.wds {
			if wd.BaseDenom != d {
				continue
			}
			claimed := false
			if wd.Amount.IsUint64() {
				lf := prover.Leaf(tc.bridge, wd.Seq, wd.From, wd.To, wd.BaseDenom, wd.Amount.Uint64())
				res, err := tc.L1.n.Querier().Claimed(ctx1, &ophosttypes.QueryClaimedRequest{BridgeId: tc.bridge, WithdrawalHash: lf[:]})
				if err != nil {
					panic(err)
				}
				claimed = res.Claimed
			}
			if !claimed {
				unpaid.Add(unpaid, wd.Amount)
			}
		}
		rhs := new(big.Int).Add(supply, inflight)
		rhs.Add(rhs, unpaid)
		if t := tc.third[d]; t != nil {
			rhs.Add(rhs, t)
		}
		if escrow.Cmp(rhs) != 0 {
			return tc.fail(own, "peg.broken", "peg-equation", "after %s block %d, denom %s: escrow %s != L2 supply %s + deposits in flight %s + unpaid withdrawals %s + third-party %v", where, h, d, escrow, supply, inflight, unpaid, tc.third[d])
		}
	}
	return nil
}

// ---- actors ----

func (tc *twoChain) actUserDeposit() {
	r := tc.r
	w := tc.L1
	sender := w.pickUser()
	sa, _ := sdk.AccAddressFromBech32(sender)
	d := w.denoms[r.Intn(len(w.denoms))]
	bal := w.m.Bal.get(sa, d)
	var amt math.Int
	sel := r.Weighted([]int{12, 1, 1, 1, 2})
	if sel == 4 && !(tc.p.BigAmts && bal.BitLen() > 64) {
		sel = 0
	}
	switch sel {
	case 0:
		amt = math.NewInt(int64(1 + r.Intn(100_000)))
	case 1:
		amt = math.ZeroInt()
	case 2:
		amt = math.NewIntFromBigInt(bal)
		if !amt.IsUint64() {
			amt = math.NewInt(12345)
		}
	case 4:
		amt = math.NewIntFromUint64([]uint64{1<<63 - 1, 1 << 63, ^uint64(0), 1 << 62}[r.Intn(4)])
	default:
		amt = math.NewInt(1)
		if tc.p.BigAmts && bal.BitLen() > 66 {
			amt = math.NewIntFromBigInt(new(big.Int).Add(new(big.Int).Lsh(big.NewInt(1), 64), big.NewInt(int64(r.Intn(1000)))))
			if tc.L1.avoidKnown && core.Known.Listed(tc.p.Prop, "amount-over-64-bits") {
				amt = math.NewIntFromUint64(^uint64(0))
			}
		}
	}
	to := tc.L2.pickUser()
	if r.Chance(tc.p.BadRcpt, 100) {
		to = []string{"0x1", "cosmos1notbech32", strings.Repeat("z", 300), tc.L2.n.Authority, " ", "\t\n", " " + tc.L2.pickUser(), tc.L2.pickUser() + " "}[r.Intn(8)]
	}
	var data []byte
	if r.Chance(tc.p.Hooks, 100) {
		data = tc.L2.makeHook(tc.L2.m, to, sdk.Coin{Denom: prover.L2Denom(tc.bridge, d), Amount: amt})
	}
	// inputs the L1 has to refuse, because the other side could never complete them
	switch r.Weighted([]int{40, 1, 1, 1}) {
	case 1:
		to = "" // (with or without a payload) the L2 would refund it with an empty sender
	case 2:
		amt = math.NewInt(-int64(1 + r.Intn(1000)))
	case 3:
		if amt.IsZero() {
			d = []string{"a", "1coin", "bad denom!"}[r.Intn(3)]
		}
	}
	msg := &ophosttypes.MsgInitiateTokenDeposit{Sender: sender, BridgeId: tc.bridge, To: to, Amount: sdk.Coin{Denom: d, Amount: amt}, Data: data}
	tc.r.Step("act.deposit", "%s%s %s -> L2 %s data=%dB", amt, d, short(sender), short(to), len(data))
	tc.send(1, "user", []sdk.Msg{msg}, "deposit", fmt.Sprintf("bridge=1 %s%s from=%s to=%s data=%dB", amt, d, short(sender), short(to), len(data)))
}

func (tc *twoChain) actUserWithdraw() {
	r := tc.r
	w := tc.L2
	// pick a holder of a bridged denom
	var holders [][2]string
	for _, u := range w.users {
		for _, d := range tc.L1.denoms {
			if w.m.Bal.get(u, prover.L2Denom(tc.bridge, d)).Sign() > 0 {
				holders = append(holders, [2]string{u.String(), prover.L2Denom(tc.bridge, d)})
			}
		}
	}
	if len(holders) == 0 {
		return
	}
	h := holders[r.Intn(len(holders))]
	ha, _ := sdk.AccAddressFromBech32(h[0])
	bal := w.m.Bal.get(ha, h[1])
	var amt math.Int
	switch r.Weighted([]int{8, 2, 1}) {
	case 0:
		if bal.IsUint64() {
			amt = math.NewIntFromUint64(1 + r.Uint64n(bal.Uint64()))
		} else {
			amt = math.NewIntFromBigInt(new(big.Int).Rsh(bal, 1))
		}
	case 1:
		amt = math.NewIntFromBigInt(bal)
	default:
		amt = math.NewIntFromBigInt(new(big.Int).Add(bal, big.NewInt(1)))
	}
	if !amt.IsUint64() && tc.L2.avoidKnown && core.Known.Listed(tc.p.Prop, "amount-over-64-bits") {
		amt = math.NewIntFromUint64(^uint64(0))
	}
	to := tc.L1.pickUser()
	if r.Chance(1, 8) {
		to = strings.ToUpper(to) // an all-uppercase bech32 string is a valid address too
	} else if r.Chance(1, 10) {
		// an L1 module account (a valid address; the bank's send restrictions for user transfers do not apply to the bridge's payout)
		to = authtypes.NewModuleAddress([]string{authtypes.FeeCollectorName, node.DistrModule, "gov"}[r.Intn(3)]).String()
	}
	msg := &opchildtypes.MsgInitiateTokenWithdrawal{Sender: h[0], To: to, Amount: sdk.Coin{Denom: h[1], Amount: amt}}
	tc.r.Step("act.withdraw", "%s by %s to L1 %s", amt, short(h[0]), short(to))
	tc.send(2, "user", []sdk.Msg{msg}, "withdraw", fmt.Sprintf("%s%s by=%s to=%s", amt, short(h[1]), short(h[0]), short(to)))
}

func (tc *twoChain) actL2Send() {
	r := tc.r
	w := tc.L2
	from := w.pickUser()
	fa, _ := sdk.AccAddressFromBech32(from)
	d := prover.L2Denom(tc.bridge, tc.L1.denoms[r.Intn(len(tc.L1.denoms))])
	bal := w.m.Bal.get(fa, d)
	if bal.Sign() <= 0 || !bal.IsUint64() {
		return
	}
	amt := math.NewIntFromUint64(1 + r.Uint64n(bal.Uint64()))
	to := w.pickUser()
	tc.r.Step("act.l2send", "%s %s->%s", amt, short(from), short(to))
	tc.send(2, "user", []sdk.Msg{&banktypes.MsgSend{FromAddress: from, ToAddress: to, Amount: sdk.NewCoins(sdk.NewCoin(d, amt))}}, "send", fmt.Sprintf("%s %s->%s", amt, short(from), short(to)))
}

func (tc *twoChain) actThirdParty() {
	r := tc.r
	w := tc.L1
	from := w.pickUser()
	fa, _ := sdk.AccAddressFromBech32(from)
	d := w.denoms[r.Intn(len(w.denoms))]
	if w.m.Bal.get(fa, d).Cmp(big.NewInt(1000)) < 0 {
		return
	}
	amt := int64(1 + r.Intn(1000))
	tc.r.Step("act.thirdparty", "%d%s from %s into the escrow", amt, d, short(from))
	msg := &banktypes.MsgSend{FromAddress: from, ToAddress: sdk.AccAddress(prover.Escrow(tc.bridge)).String(), Amount: sdk.NewCoins(sdk.NewCoin(d, math.NewInt(amt)))}
	tc.send(1, "third", []sdk.Msg{msg}, "send", fmt.Sprintf("%d%s %s->escrow", amt, d, short(from)))
}

// actExecutor: observe both chains, then relay what L2 has not processed yet.
func (tc *twoChain) actExecutor(e *execActor) {
	r := tc.r
	// an executor actor operates whichever key the chain currently lists (plans and parameter changes rotate them)
	if cur := tc.L2.m.Params.BridgeExecutors; len(cur) > 0 {
		for i, x := range tc.execs {
			if x == e {
				e.Addr = cur[i%len(cur)]
			}
		}
	}
	// observation may lag
	if tc.draining || !tc.p.Faults || r.Chance(3, 4) {
		e.SeenL1 = len(tc.deps)
		e.SeenL2 = len(tc.wds)
	}
	ctx2 := tc.L2.n.QueryCtx()
	q, err := tc.L2.n.Querier().NextL1Sequence(ctx2, &opchildtypes.QueryNextL1SequenceRequest{})
	if err != nil {
		panic(err)
	}
	next := q.NextL1Sequence
	if next == 0 {
		// sequences start at 1: an executor that trusts this answer cannot relay anything
		v := tc.fail([]string{"C06", "C08", "C04"}, "query.next-l1-sequence", "next-l1-sequence-query-zero", "the NextL1Sequence query answered 0 (the handler expects sequence %d)", tc.L2.m.NextL1Seq)
		panic(core.FailNow{Inv: v.Inv, Key: v.Key, Msg: v.Msg})
	}
	var seqs []uint64
	n := 1 + r.Intn(3)
	for s := next; s < next+uint64(n) && s <= uint64(e.SeenL1); s++ {
		seqs = append(seqs, s)
	}
	if !tc.draining && tc.p.Faults && next > 1 && r.Chance(1, 5) {
		seqs = append([]uint64{1 + uint64(r.Intn(int(next-1)))}, seqs...) // stale replay
		tc.r.Fault("executor.stale-replay")
	}
	if len(seqs) == 0 {
		return
	}
	mkMsg := func(s uint64) sdk.Msg {
		d := tc.deps[s-1]
		tc.L2.deps[s] = &l1Deposit{Seq: s, From: d.From, To: d.To, Amount: sdk.Coin{Denom: d.L2Denom, Amount: math.NewIntFromBigInt(d.Amount)}, BaseDenom: d.L1Denom, Height: uint64(d.L1Height), Data: d.Data}
		return &opchildtypes.MsgFinalizeTokenDeposit{Sender: e.Addr, From: d.From, To: d.To, Amount: sdk.Coin{Denom: d.L2Denom, Amount: math.NewIntFromBigInt(d.Amount)},
			Sequence: s, Height: uint64(d.L1Height), BaseDenom: d.L1Denom, Data: d.Data}
	}
	tc.r.Step("act.relay", "%s relays %v (L2 next=%d)", e.Name, seqs, next)
	if len(seqs) > 1 && r.Chance(1, 3) {
		var msgs []sdk.Msg
		for _, s := range seqs {
			msgs = append(msgs, mkMsg(s))
		}
		tc.send(2, e.Name, msgs, "relaybatch", fmt.Sprintf("seqs=%v by=%s", seqs, e.Name))
		return
	}
	for _, s := range seqs {
		tc.send(2, e.Name, []sdk.Msg{mkMsg(s)}, "relay", fmt.Sprintf("seq=%d by=%s", s, e.Name))
	}
}

// actPropose: commit to the withdrawals not yet covered by an accepted output.
func (tc *twoChain) actPropose() {
	r := tc.r
	b := tc.L1.m.Bridges[tc.bridge]
	covered := map[int]bool{}
	for idx, o := range tc.outputs {
		if b.Outputs[idx] == nil {
			continue
		}
		for _, l := range o.Leaves {
			covered[l] = true
		}
	}
	var leaves []int
	seen := tc.execs[0].SeenL2
	if tc.draining {
		seen = len(tc.wds)
	}
	maxLeaves := 6
	if tc.p.BigTrees {
		maxLeaves = 33
	}
	for i := 0; i < seen && len(leaves) < maxLeaves; i++ {
		if !covered[i] && tc.wds[i].Amount.IsUint64() {
			leaves = append(leaves, i)
		}
	}
	if len(leaves) == 0 && !r.Chance(1, 4) {
		return
	}
	var hs []prover.Hash
	for _, i := range leaves {
		wd := tc.wds[i]
		hs = append(hs, prover.Leaf(tc.bridge, wd.Seq, wd.From, wd.To, wd.BaseDenom, wd.Amount.Uint64()))
	}
	dup := r.Chance(1, 2)
	t := prover.Build(hs, dup)
	tc.L1.liftTree(t)
	c := &commitment{Version: []byte{0, 1, 0, 1, 2, 3, 0x7f, 0xff}[r.Intn(8)], Storage: t.Root(), BlockHash: tc.L1.randHash(), Tree: t, Leaves: leaves}
	root := prover.OutputRoot(c.Version, c.Storage, c.BlockHash)
	tc.L1.commits[root] = c
	tc.proposed[root] = &tcOutput{Leaves: leaves, C: c}
	var prevBlk uint64
	if o := b.Outputs[b.NextOutIdx-1]; o != nil {
		prevBlk = o.L2Block
	}
	l2blk := uint64(tc.L2.n.Height())
	if l2blk <= prevBlk {
		l2blk = prevBlk + 1
	}
	msg := &ophosttypes.MsgProposeOutput{Proposer: tc.proposer, BridgeId: tc.bridge, OutputIndex: b.NextOutIdx, L2BlockNumber: l2blk, OutputRoot: root[:]}
	tc.r.Step("act.propose", "output %d over withdrawals %v (tree dup=%v)", b.NextOutIdx, leaves, dup)
	tc.send(1, "proposer", []sdk.Msg{msg}, "propose", fmt.Sprintf("bridge=1 idx=%d l2block=%d leaves=%d", b.NextOutIdx, l2blk, len(leaves)))
}

func (tc *twoChain) actChallenge() {
	b := tc.L1.m.Bridges[tc.bridge]
	if b.NextOutIdx <= 1 {
		return
	}
	idx := 1 + uint64(tc.r.Intn(int(b.NextOutIdx-1)))
	if idx <= b.EverFinal {
		return
	}
	tc.r.Step("act.challenge", "challenger deletes output %d", idx)
	tc.send(1, "challenger", []sdk.Msg{&ophosttypes.MsgDeleteOutput{Challenger: tc.challenger, BridgeId: tc.bridge, OutputIndex: idx}}, "delete", fmt.Sprintf("bridge=1 idx=%d", idx))
}

// actClaim: claim withdrawals whose output may be final.
func (tc *twoChain) actClaim(max int) int {
	b := tc.L1.m.Bridges[tc.bridge]
	sent := 0
	idxs := make([]uint64, 0, len(tc.outputs))
	for k := range tc.outputs {
		idxs = append(idxs, k)
	}
	sort.Slice(idxs, func(i, j int) bool { return idxs[i] < idxs[j] })
	T := tc.L1.now
	for _, idx := range idxs {
		o := tc.outputs[idx]
		mo := b.Outputs[idx]
		if mo == nil || mo.Root != prover.OutputRoot(o.C.Version, o.C.Storage, o.C.BlockHash) {
			continue
		}
		if finalAt(mo.L1Time, b.Cfg.FinalizationPeriod, T) == triNo {
			continue
		}
		for pos, wi := range o.Leaves {
			wd := tc.wds[wi]
			if !wd.Claimable {
				continue
			}
			lf := prover.Leaf(tc.bridge, wd.Seq, wd.From, wd.To, wd.BaseDenom, wd.Amount.Uint64())
			if b.Claims[lf] {
				continue
			}
			if tc.claimSent[wi] > 0 && !tc.draining && !tc.r.Chance(1, 4) {
				continue
			}
			msg := &ophosttypes.MsgFinalizeTokenWithdrawal{Sender: tc.L1.pickUser(), BridgeId: tc.bridge, OutputIndex: idx, Sequence: wd.Seq, From: wd.From, To: wd.To,
				Amount: sdk.Coin{Denom: wd.BaseDenom, Amount: math.NewIntFromBigInt(wd.Amount)}, Version: []byte{o.C.Version}, StorageRoot: append([]byte{}, o.C.Storage[:]...),
				LastBlockHash: append([]byte{}, o.C.BlockHash[:]...), WithdrawalProofs: hashes(o.C.Tree.Proof(pos))}
			tc.claimSent[wi]++
			switch n := len(o.Leaves); {
			case n >= 17:
				tc.r.Probe("claim.tree-size>=17")
				fallthrough
			case n >= 9:
				tc.r.Probe("claim.tree-size>=9")
				fallthrough
			case n >= 3:
				tc.r.Probe("claim.tree-size>=3")
			}
			if len(o.Leaves)%2 == 1 && pos == len(o.Leaves)-1 {
				tc.r.Probe("claim.last-leaf-of-odd-tree")
			}
			tc.r.Step("act.claim", "withdrawal %d against output %d (leaf %d/%d)", wd.Seq, idx, pos, len(o.Leaves))
			tc.send(1, "claimer", []sdk.Msg{msg}, "claim", fmt.Sprintf("bridge=1 out=%d seq=%d %s%s to=%s proof=%d", idx, wd.Seq, wd.Amount, wd.BaseDenom, short(wd.To), len(msg.WithdrawalProofs)))
			sent++
			if sent >= max {
				return sent
			}
		}
	}
	return sent
}

// background admin traffic (C16 / C18): reuse the single-chain generators with a restricted op mix.
func (tc *twoChain) actAdminL1() {
	w := tc.L1
	save := w.p.W
	w.p.W = map[string]int{"create": 2, "batchInfo": 3, "oracleCfg": 2, "recordBatch": 1, "send": 3, "metadata": 2, "deposit": 3}
	spec := w.m.clone()
	msg, kind, desc := w.genOp(spec, blockCtx{Height: w.n.Height() + 1, Time: w.now})
	w.p.W = save
	switch x := msg.(type) {
	case *ophosttypes.MsgUpdateBatchInfo:
		x.Authority = w.m.Gov // keep the proposer role where the proposer actor expects it
	case *ophosttypes.MsgInitiateTokenDeposit:
		if x.BridgeId == tc.bridge {
			return // deposits into the simulated L2's bridge come from the user actor (hooks are registered there)
		}
	case *banktypes.MsgSend:
		if x.ToAddress == sdk.AccAddress(prover.Escrow(tc.bridge)).String() {
			return
		}
	}
	tc.r.Step("act.admin-l1", "%s %s", kind, desc)
	tc.send(1, "admin", []sdk.Msg{msg}, kind, desc)
}

func (tc *twoChain) actAdminL2() {
	w := tc.L2
	save := w.p.W
	w.p.W = map[string]int{"addval": 4, "rmval": 3, "params": 3, "exec": 2, "send": 2, "spend": 1}
	spec := w.m.clone()
	msgs, kind, desc := w.genOp(spec, blockCtx{Height: w.n.Height() + 1, Time: w.now})
	w.p.W = save
	for _, m := range msgs {
		if p, ok := m.(*opchildtypes.MsgUpdateParams); ok {
			// the executor actors stay authorised and the admin stays the admin
			p.Params.BridgeExecutors = append([]string{}, w.m.Params.BridgeExecutors...)
			p.Params.Admin = w.m.Params.Admin
		}
		if e, ok := m.(*opchildtypes.MsgExecuteMessages); ok {
			inner, _ := e.GetMsgs()
			for _, im := range inner {
				if p, ok := im.(*opchildtypes.MsgUpdateParams); ok {
					_ = p
					return // keep it simple: no parameter changes hidden in batches
				}
			}
		}
	}
	// never empty the validator set (outside the scope of the properties): count removals already on their way
	countRm := func(ms []sdk.Msg) int {
		n := 0
		for _, m := range ms {
			switch x := m.(type) {
			case *opchildtypes.MsgRemoveValidator:
				n++
			case *opchildtypes.MsgExecuteMessages:
				inner, _ := x.GetMsgs()
				for _, im := range inner {
					if _, ok := im.(*opchildtypes.MsgRemoveValidator); ok {
						n++
					}
				}
			}
		}
		return n
	}
	pendingRm := 0
	for _, f := range tc.inflight {
		if f.Chain == 2 {
			pendingRm += countRm(f.Msgs)
		}
	}
	for _, t := range tc.mem2 {
		pendingRm += countRm(t.Msgs)
	}
	if n := countRm(msgs); n > 0 && w.m.bonded()-pendingRm-n < 1 {
		return
	}
	tc.r.Step("act.admin-l2", "%s %s", kind, desc)
	tc.send(2, "admin", msgs, kind, desc)
}

// step performs one scheduler-chosen action.
func (tc *twoChain) step() *core.Violation {
	r := tc.r
	wts := []int{10, 8, 4, 2, 10, 4, tc.p.Challenge, 5, 9, 9, 0, 0, 0, tc.p.Reimport, tc.p.Others}
	if tc.draining {
		wts[14] = 0
	}
	if tc.p.WWithdraw > 0 {
		wts[1] = tc.p.WWithdraw
	}
	if tc.p.WPropose > 0 {
		wts[5] = tc.p.WPropose
	}
	if tc.p.Faults {
		wts[10] = 2 // partition / heal
	}
	if tc.p.Admin {
		wts[11], wts[12] = 4, 4
	}
	switch r.Weighted(wts) {
	case 0:
		tc.actUserDeposit()
	case 1:
		tc.actUserWithdraw()
	case 2:
		tc.actL2Send()
	case 3:
		tc.actThirdParty()
	case 4:
		tc.actExecutor(tc.execs[r.Intn(len(tc.execs))])
	case 5:
		tc.actPropose()
	case 6:
		tc.actChallenge()
	case 7:
		tc.actClaim(1 + r.Intn(4))
	case 8:
		return tc.produce(1)
	case 9:
		return tc.produce(2)
	case 10:
		e := tc.execs[r.Intn(len(tc.execs))]
		e.Partitioned = !e.Partitioned
		if e.Partitioned {
			r.Fault("net.partition")
		} else {
			r.Fault("net.heal")
		}
		r.Step("net.partition", "%s partitioned=%v", e.Name, e.Partitioned)
	case 11:
		tc.actAdminL1()
	case 12:
		tc.actAdminL2()
	case 13:
		// restart one chain from its exported genesis; its mempool is gone, messages in flight are not
		if r.Chance(1, 2) {
			tc.mem1 = nil
			return tc.L1.reimport()
		}
		tc.mem2 = nil
		return tc.L2.reimport()
	case 14:
		tc.actOtherRollups()
	}
	return nil
}

// actOtherRollups: the L1 hosts other rollups' bridges too.  Their operators and users create bridges,
// deposit, propose and delete outputs, finalize (fabricated) withdrawals and rotate roles; none of it
// may touch this rollup's bridge.
func (tc *twoChain) actOtherRollups() {
	w := tc.L1
	save := w.p.W
	w.p.W = map[string]int{"create": 1, "deposit": 4, "propose": 6, "delete": 3, "claim": 6, "updProposer": 1, "updChallenger": 1}
	if len(w.m.Bridges) <= 1 {
		w.p.W = map[string]int{"create": 1}
	}
	w.avoidBridge = tc.bridge
	msg, kind, desc := w.genOp(w.m.clone(), blockCtx{Height: w.n.Height() + 1, Time: w.now})
	w.avoidBridge = 0
	w.p.W = save
	switch x := msg.(type) {
	case *ophosttypes.MsgInitiateTokenDeposit:
		if x.BridgeId == tc.bridge {
			return
		}
	case *ophosttypes.MsgFinalizeTokenWithdrawal:
		if x.BridgeId == tc.bridge {
			return
		}
	}
	tc.r.Step("act.other-rollup", "%s %s", kind, desc)
	tc.send(1, "others", []sdk.Msg{msg}, kind, desc)
}

func (tc *twoChain) produce(chain int) *core.Violation {
	r := tc.r
	dts := []time.Duration{time.Second, 3 * time.Second, 500 * time.Millisecond, 0, time.Minute, 6 * time.Second}
	dt := dts[r.Intn(len(dts))]
	if chain == 1 && r.Chance(1, 8) {
		dt = tc.finPeriod + time.Second
		if dt > 2*time.Hour {
			dt = 2 * time.Hour
		}
	}
	crash := tc.pickCrash()
	if chain == 1 {
		tc.advance(0)
		tc.deliver(1)
		take, keep := tc.proposerOrder(tc.mem1)
		tc.mem1 = keep
		return tc.blockL1(take, dt, crash)
	}
	if tc.L2.p.Plans && !tc.draining && r.Chance(1, 10) {
		if v := tc.L2.registerPlan(blockCtx{Height: tc.L2.n.Height() + 1}); v != nil {
			return v
		}
	}
	tc.deliver(2)
	take, keep := tc.proposerOrder(tc.mem2)
	tc.mem2 = keep
	return tc.blockL2(take, dt, crash)
}

// bookThirdParty records successful plain sends into the escrow (they are part of the peg equation).
func (tc *twoChain) bookThirdParty(txs []memTx, res *abci.ResponseFinalizeBlock) {
	esc := sdk.AccAddress(prover.Escrow(tc.bridge)).String()
	for i, t := range txs {
		if res.TxResults[i].Code != 0 {
			continue
		}
		if s, ok := t.Msgs[0].(*banktypes.MsgSend); ok && s.ToAddress == esc {
			for _, c := range s.Amount {
				bump(tc.third, c.Denom, c.Amount.BigInt())
			}
		}
	}
}

// drain: faults stop; everything in flight must complete within a step budget.
func (tc *twoChain) drain() *core.Violation {
	tc.draining = true
	for _, e := range tc.execs {
		e.Partitioned = false
	}
	tc.r.Step("drain", "faults stop; %d deposits emitted, %d withdrawals recorded", len(tc.deps), len(tc.wds))
	// the admin makes sure the executor actors are authorised (parameters may have been changed during the run)
	b := tc.L1.m.Bridges[tc.bridge]
	stuck := ""
	for round, budget := 0, 60+2*len(tc.deps)+len(tc.wds); round < budget; round++ { // the budget grows with the backlog: an executor relays one deposit per round in the worst case
		for _, e := range tc.execs {
			tc.actExecutor(e)
		}
		if v := tc.produce(2); v != nil {
			return v
		}
		caught := tc.L2.m.NextL1Seq == uint64(len(tc.deps))+1
		if caught {
			tc.actPropose()
		}
		if v := tc.produce(1); v != nil {
			return v
		}
		// let the newest output become final
		tc.deliver(1)
		take, keep := tc.proposerOrder(tc.mem1)
		tc.mem1 = keep
		dt := tc.finPeriod + 2*time.Second
		if v := tc.blockL1(take, dt, ""); v != nil {
			return v
		}
		tc.actClaim(1000)
		if v := tc.produce(1); v != nil {
			return v
		}
		// done?
		unclaimed := 0
		uncovered := 0
		covered := map[int]bool{}
		for idx, o := range tc.outputs {
			if b.Outputs[idx] != nil {
				for _, l := range o.Leaves {
					covered[l] = true
				}
			}
		}
		for i, wd := range tc.wds {
			if !wd.Claimable || !wd.Amount.IsUint64() {
				continue
			}
			if !covered[i] {
				uncovered++
			}
			lf := prover.Leaf(tc.bridge, wd.Seq, wd.From, wd.To, wd.BaseDenom, wd.Amount.Uint64())
			if !b.Claims[lf] {
				unclaimed++
			}
		}
		caught = tc.L2.m.NextL1Seq == uint64(len(tc.deps))+1
		stuck = fmt.Sprintf("L2 next L1 sequence %d of %d deposits, %d withdrawals uncovered, %d unclaimed, in flight %d, mempools %d/%d", tc.L2.m.NextL1Seq, len(tc.deps), uncovered, unclaimed, len(tc.inflight), len(tc.mem1), len(tc.mem2))
		if caught && unclaimed == 0 && uncovered == 0 && len(tc.inflight) == 0 && len(tc.mem1) == 0 && len(tc.mem2) == 0 {
			tc.r.Probe("drain.completed")
			tc.r.Stat("drain.rounds", round+1)
			return tc.finalChecks()
		}
	}
	return tc.fail([]string{"C04", "C08"}, "drain.incomplete", "drain-incomplete", "after faults stopped the bridge did not drain within the step budget: %s", stuck)
}

func (tc *twoChain) finalChecks() *core.Violation {
	ctx1, ctx2 := tc.L1.n.QueryCtx(), tc.L2.n.QueryCtx()
	esc := sdk.AccAddress(prover.Escrow(tc.bridge))
	for _, d := range tc.L1.denoms {
		l2d := prover.L2Denom(tc.bridge, d)
		escrow := tc.L1.n.BK.GetBalance(ctx1, esc, d).Amount.BigInt()
		supply := tc.L2.n.BK.GetSupply(ctx2, l2d).Amount.BigInt()
		want := new(big.Int).Set(supply)
		if t := tc.third[d]; t != nil {
			want.Add(want, t)
		}
		// withdrawals that can never be claimed (recipient not an L1 address) stay in the escrow
		for _, wd := range tc.wds {
			if wd.BaseDenom == d && !wd.Claimable {
				want.Add(want, wd.Amount)
			}
		}
		if escrow.Cmp(want) != 0 {
			return tc.fail([]string{"C08"}, "drain.escrow-vs-supply", "drained-escrow-not-supply", "after the drain, denom %s: escrow %s != L2 supply %s (+ third-party / unclaimable)", d, escrow, supply)
		}
		// users' combined holdings across both chains
		tot := new(big.Int)
		for _, bal := range tc.L1.n.BK.GetAccountsBalances(ctx1) {
			if bal.Address == esc.String() {
				continue
			}
			tot.Add(tot, bal.Coins.AmountOf(d).BigInt())
		}
		tot.Add(tot, supply)
		if t := tc.third[d]; t != nil {
			tot.Add(tot, t)
		}
		for _, wd := range tc.wds {
			if wd.BaseDenom == d && !wd.Claimable {
				tot.Add(tot, wd.Amount)
			}
		}
		if tot.Cmp(tc.initialL1[d]) != 0 {
			return tc.fail([]string{"C08"}, "drain.holdings", "drained-holdings-changed", "after the drain, denom %s: combined holdings %s != initial %s", d, tot, tc.initialL1[d])
		}
	}
	for k, n := range tc.L1.paid {
		if n != 1 {
			return tc.fail([]string{"C08", "C02"}, "claim.paid-twice", "withdrawal-paid-twice", "withdrawal %s paid %d times", k, n)
		}
	}
	return nil
}

func runTwoChain(p *tcProfile) func(r *core.Run) *core.Violation {
	return func(r *core.Run) *core.Violation {
		tc, v := newTwoChain(r, p)
		if v != nil {
			return v
		}
		n := p.Steps[0] + r.Intn(p.Steps[1]-p.Steps[0]+1)
		if r.Tier == "thorough" && r.Chance(1, 4) {
			n *= 3
		}
		for i := 0; i < n; i++ {
			if v := tc.step(); v != nil {
				return v
			}
		}
		if v := tc.drain(); v != nil {
			return v
		}
		if !p.Admin && !p.Plans {
			if v := tc.checkHistory(); v != nil {
				return v
			}
		}
		r.Stat("deposits", len(tc.deps))
		r.Stat("withdrawals", len(tc.wds))
		r.NonTriv = len(tc.deps) >= 2 && len(tc.wds) >= 1 && tc.L1.succ["claim"] >= 1
		if tc.L1.succ["claim"] >= 1 {
			r.Probe("e2e.claim-succeeded")
		}
		return nil
	}
}
