package scen

import (
	"encoding/hex"
	"fmt"
	"math/big"
	"sort"
	"strconv"
	"time"

	abci "github.com/cometbft/cometbft/abci/types"
	sdk "github.com/cosmos/cosmos-sdk/types"
	banktypes "github.com/cosmos/cosmos-sdk/x/bank/types"
	"github.com/cosmos/gogoproto/proto"

	ophosttypes "github.com/initia-labs/OPinit/x/ophost/types"

	"opsim/node"
	"opsim/prover"
)

type txRes struct {
	OK     bool
	Log    string
	Events []abci.Event
	Resps  []proto.Message
	Gas    int64
}

type mismatch struct {
	Inv, Key string
	Owners   []string
	Msg      string
}

type stepOut struct {
	P pred
	// OnSuccess applies the effects of a successful execution to the model and
	// returns response / event mismatches.
	OnSuccess func(res *txRes) []mismatch
	// OnFail lets the model record what a (legitimate) failure reveals.
	OnFail func(res *txRes)
}

type blockCtx struct {
	Height int64
	Time   time.Time
}

func mm(inv, key string, owners []string, format string, a ...interface{}) mismatch {
	return mismatch{inv, key, owners, fmt.Sprintf(format, a...)}
}

func attrsOf(res *txRes, typ string) []map[string]string { return node.EventAttrs(res.Events, typ) }

func expectAttrs(got map[string]string, want map[string]string, inv string, owners []string) []mismatch {
	var out []mismatch
	keys := make([]string, 0, len(want))
	for k := range want {
		keys = append(keys, k)
	}
	sort.Strings(keys) // several attributes may be wrong at once: always report the same one first
	for _, k := range keys {
		if v := want[k]; got[k] != v {
			out = append(out, mm(inv, "event-attr-"+k, owners, "event attribute %s = %q, want %q", k, got[k], v))
		}
	}
	return out
}

var (
	ownDeposit   = []string{"C10", "C01", "C08"}
	ownOutputLog = []string{"C11"}
	ownAuthL1    = []string{"C12"}
	ownFinality  = []string{"C05"}
	ownForge     = []string{"C03"}
	ownDouble    = []string{"C02"}
	ownClaimOK   = []string{"C04", "C05", "C08", "C02", "C01"}
	ownHook      = []string{"C19"}
)

// step is the single entry point of the L1 model.
func (m *modelL1) step(msg sdk.Msg, bc blockCtx) stepOut {
	switch x := msg.(type) {
	case *ophosttypes.MsgCreateBridge:
		return m.stepCreate(x, bc)
	case *ophosttypes.MsgInitiateTokenDeposit:
		return m.stepDeposit(x, bc)
	case *ophosttypes.MsgProposeOutput:
		return m.stepPropose(x, bc)
	case *ophosttypes.MsgDeleteOutput:
		return m.stepDelete(x, bc)
	case *ophosttypes.MsgFinalizeTokenWithdrawal:
		return m.stepFinalize(x, bc)
	case *ophosttypes.MsgUpdateProposer:
		return m.stepRole(x.Authority, x.BridgeId, "proposer", x.NewProposer, bc, func(b *mBridge) { b.Cfg.Proposer = x.NewProposer })
	case *ophosttypes.MsgUpdateChallenger:
		return m.stepRole(x.Authority, x.BridgeId, "challenger", x.Challenger, bc, func(b *mBridge) { b.Cfg.Challenger = x.Challenger })
	case *ophosttypes.MsgUpdateBatchInfo:
		return m.stepBatchInfo(x, bc)
	case *ophosttypes.MsgUpdateMetadata:
		return m.stepMetadata(x, bc)
	case *ophosttypes.MsgUpdateOracleConfig:
		return m.stepOracleCfg(x, bc)
	case *ophosttypes.MsgUpdateParams:
		return m.stepParams(x, bc)
	case *ophosttypes.MsgRecordBatch:
		return m.stepRecordBatch(x, bc)
	case *banktypes.MsgSend:
		return m.stepBankSend(x, bc)
	}
	return stepOut{P: pred{Kind: either, Note: "unmodelled message"}}
}

// ---- create bridge ----
func (m *modelL1) stepCreate(x *ophosttypes.MsgCreateBridge, bc blockCtx) stepOut {
	var p pred
	creator, okc := validAddr(x.Creator)
	if !okc {
		p.failBecause("create.bad-creator", "bad-creator", "C12")
	}
	c := x.Config
	if c.FinalizationPeriod <= 0 {
		key := "zero-finalization-period"
		if c.FinalizationPeriod < 0 {
			key = "negative-finalization-period"
		}
		p.failBecause("create.nonpositive-period", key, "C05")
	}
	_, okP := validAddr(c.Proposer)
	chall, okCh := validAddr(c.Challenger)
	if !okP || !okCh || c.BatchInfo.ChainType == ophosttypes.BatchInfo_CHAIN_TYPE_UNSPECIFIED || c.BatchInfo.Submitter == "" ||
		c.SubmissionInterval == 0 || c.SubmissionStartHeight == 0 || len(c.Metadata) > ophosttypes.MaxMetadataLength {
		p.failBecause("create.invalid-config", "invalid-config", "C19", "C12", "C10", "C05")
	}
	if c.SubmissionInterval < 0 && p.Kind != mustFail {
		// the properties say nothing about negative submission intervals
		p.Kind = either
	}
	// registration fee
	if okc && !m.RegFee.IsZero() {
		for _, f := range m.RegFee {
			if m.Bal.get(creator, f.Denom).Cmp(f.Amount.BigInt()) < 0 {
				p.failBecause("create.insufficient-fee", "insufficient-fee", "C01")
			}
		}
	}
	// channel permissions
	var grant map[string]string
	if okCh {
		ok, chans, certain := parsePermMetadata(c.Metadata)
		if !certain {
			if p.Kind == mustSucceed {
				p.Kind = either
				p.Note = "ambiguous metadata"
			}
			return stepOut{P: p, OnSuccess: func(res *txRes) []mismatch {
				return []mismatch{{"model.abstain", "ambiguous-metadata", nil, "metadata with duplicate / differently-cased keys: model abstains"}}
			}}
		}
		if ok {
			all, same, g := m.grantAll(chans, chall)
			if !all {
				p.failBecause("hook.channel-not-grantable", "create-channel-not-grantable", "C19")
			} else if same && p.Kind == mustSucceed {
				p.Kind = either
				p.Note = "channel already administered by this challenger"
			}
			grant = g
		}
	}
	id := m.NextBridgeID
	return stepOut{P: p, OnSuccess: func(res *txRes) []mismatch {
		var out []mismatch
		b := &mBridge{ID: id, Cfg: c, NextL1Seq: 1, NextOutIdx: 1, Outputs: map[uint64]*mOutput{}, Claims: map[prover.Hash]bool{},
			Pairs: map[string]string{}, PaidCount: map[prover.Hash]int{}}
		b.Cfg.Metadata = append([]byte{}, c.Metadata...)
		b.Batches = []mBatch{{ChainType: int32(c.BatchInfo.ChainType), Submitter: c.BatchInfo.Submitter}}
		m.Bridges[id] = b
		m.NextBridgeID++
		for _, f := range m.RegFee {
			m.Bal.add(creator, f.Denom, new(big.Int).Neg(f.Amount.BigInt()))
			m.Bal.add(m.DistrAddr, f.Denom, f.Amount.BigInt())
		}
		for k, v := range grant {
			m.Admin[k] = v
		}
		if len(res.Resps) == 1 {
			if r, ok := res.Resps[0].(*ophosttypes.MsgCreateBridgeResponse); ok && r.BridgeId != id {
				out = append(out, mm("create.bridge-id", "bridge-id", []string{"C10", "C01"}, "created bridge id %d, model expects %d", r.BridgeId, id))
			}
		}
		return out
	}}
}

// ---- deposit ----
func (m *modelL1) stepDeposit(x *ophosttypes.MsgInitiateTokenDeposit, bc blockCtx) stepOut {
	var p pred
	sender, oks := validAddr(x.Sender)
	switch {
	case !oks || x.BridgeId == 0:
		p.failBecause("deposit.invalid", "invalid-deposit-msg", "C10", "C01")
	case len(x.To) == 0:
		// the L2 would refund it with an empty sender, which the L1 can never pay out
		p.failBecause("deposit.invalid", "invalid-deposit:empty-recipient", "C10", "C04", "C08", "C07")
	case x.Amount.Amount.IsNil() || x.Amount.Amount.IsNegative():
		p.failBecause("deposit.invalid", "invalid-deposit:negative-amount", "C10", "C01", "C08")
	case !x.Amount.IsValid():
		// (what is left is the denom) the L2 refuses to finalize a deposit whose base denom is not a denom
		p.failBecause("deposit.invalid", "invalid-deposit:denom", "C10", "C07", "C08", "C16")
	}
	b := m.Bridges[x.BridgeId]
	if b == nil && x.BridgeId != 0 {
		p.failBecause("deposit.no-such-bridge", "deposit-to-nonexistent-bridge", "C10", "C01", "C16")
	}
	if oks && x.Amount.IsValid() && x.Amount.IsPositive() && m.Bal.get(sender, x.Amount.Denom).Cmp(x.Amount.Amount.BigInt()) < 0 {
		p.failBecause("deposit.insufficient-funds", "insufficient-funds", "C01", "C10", "C08")
	}
	if x.Amount.IsValid() && !x.Amount.Amount.IsUint64() && p.Kind != mustFail {
		// a deposit that does not fit 64 bits can be minted on L2 but its refund
		// could never be claimed; at this level the properties leave acceptance
		// open (the two-chain scenarios C04/C08 decide claimability).
		p.Kind = either
	}
	return stepOut{P: p, OnSuccess: func(res *txRes) []mismatch {
		var out []mismatch
		if b == nil {
			return out
		}
		seq := b.NextL1Seq
		b.NextL1Seq++
		if x.Amount.IsPositive() {
			m.Bal.add(sender, x.Amount.Denom, new(big.Int).Neg(x.Amount.Amount.BigInt()))
			m.Bal.add(prover.Escrow(b.ID), x.Amount.Denom, x.Amount.Amount.BigInt())
		}
		l2d := prover.L2Denom(b.ID, x.Amount.Denom)
		if _, ok := b.Pairs[l2d]; !ok {
			b.Pairs[l2d] = x.Amount.Denom
		}
		if len(res.Resps) == 1 {
			if r, ok := res.Resps[0].(*ophosttypes.MsgInitiateTokenDepositResponse); ok && r.Sequence != seq {
				out = append(out, mm("deposit.sequence", "deposit-sequence", ownDeposit, "bridge %d deposit returned sequence %d, model expects %d", b.ID, r.Sequence, seq))
			}
		}
		evs := attrsOf(res, "initiate_token_deposit")
		if len(evs) != 1 {
			out = append(out, mm("deposit.event-count", "deposit-event-count", ownDeposit, "%d initiate_token_deposit events, want exactly 1", len(evs)))
		} else {
			out = append(out, expectAttrs(evs[0], map[string]string{
				"bridge_id": strconv.FormatUint(b.ID, 10), "l1_sequence": strconv.FormatUint(seq, 10), "from": x.Sender, "to": x.To,
				"l1_denom": x.Amount.Denom, "l2_denom": l2d, "amount": x.Amount.Amount.String(), "data": hex.EncodeToString(x.Data),
			}, "deposit.event", ownDeposit)...)
		}
		return out
	}}
}

// ---- propose ----
func (m *modelL1) stepPropose(x *ophosttypes.MsgProposeOutput, bc blockCtx) stepOut {
	var p pred
	if _, ok := validAddr(x.Proposer); !ok || x.BridgeId == 0 || len(x.OutputRoot) != 32 {
		p.failBecause("propose.invalid", "invalid-propose-msg", "C11", "C12")
	}
	b := m.Bridges[x.BridgeId]
	if b == nil {
		p.failBecause("propose.no-such-bridge", "propose-no-bridge", "C11")
		return stepOut{P: p}
	}
	if x.Proposer != b.Cfg.Proposer {
		p.failBecause("auth.propose", "propose-by-non-proposer", "C12")
	}
	if x.OutputIndex != b.NextOutIdx {
		owners := []string{"C11"}
		if o := b.Outputs[x.OutputIndex]; o != nil && m.fin(b, x.OutputIndex, bc.Height, bc.Time) != triNo {
			owners = append(owners, "C05") // accepting it would replace an output that is (or may be) final
		}
		p.failBecause("propose.wrong-index", "propose-wrong-index", owners...)
	}
	if b.NextOutIdx > 1 {
		if prev := b.Outputs[b.NextOutIdx-1]; prev != nil && x.L2BlockNumber <= prev.L2Block {
			p.failBecause("propose.l2-block-not-increasing", "propose-l2block-not-increasing", "C11")
		}
	}
	return stepOut{P: p, OnSuccess: func(res *txRes) []mismatch {
		var r prover.Hash
		copy(r[:], x.OutputRoot)
		b.Outputs[x.OutputIndex] = &mOutput{Root: r, L1Height: bc.Height, L1Time: bc.Time, L2Block: x.L2BlockNumber}
		if x.OutputIndex == b.NextOutIdx {
			b.NextOutIdx++
		}
		var out []mismatch
		evs := attrsOf(res, "propose_output")
		if len(evs) != 1 {
			out = append(out, mm("propose.event-count", "propose-event", ownOutputLog, "%d propose_output events", len(evs)))
		} else {
			out = append(out, expectAttrs(evs[0], map[string]string{"bridge_id": strconv.FormatUint(b.ID, 10),
				"output_index": strconv.FormatUint(x.OutputIndex, 10), "l2_block_number": strconv.FormatUint(x.L2BlockNumber, 10),
				"output_root": hex.EncodeToString(x.OutputRoot), "proposer": x.Proposer}, "propose.event", ownOutputLog)...)
		}
		return out
	}}
}

// ---- delete ----
func (m *modelL1) stepDelete(x *ophosttypes.MsgDeleteOutput, bc blockCtx) stepOut {
	var p pred
	if _, ok := validAddr(x.Challenger); !ok || x.BridgeId == 0 || x.OutputIndex == 0 {
		p.failBecause("delete.invalid", "invalid-delete-msg", "C11", "C12", "C05")
	}
	b := m.Bridges[x.BridgeId]
	if b == nil {
		p.failBecause("delete.no-such-bridge", "delete-no-bridge", "C11")
		return stepOut{P: p}
	}
	if x.Challenger != m.Gov && x.Challenger != b.Cfg.Proposer && x.Challenger != b.Cfg.Challenger {
		p.failBecause("auth.delete", "delete-by-unauthorised", "C12")
	}
	if x.OutputIndex >= b.NextOutIdx {
		p.failBecause("delete.index-out-of-range", "delete-index-out-of-range", "C11")
	}
	var band []uint64
	if x.OutputIndex != 0 && x.OutputIndex < b.NextOutIdx {
		for i := x.OutputIndex; i < b.NextOutIdx; i++ {
			switch m.fin(b, i, bc.Height, bc.Time) {
			case triYes:
				p.failBecause("delete.final-output", "delete-final-output", "C05", "C11")
			case triBand:
				band = append(band, i)
			}
		}
	}
	if p.Kind == mustSucceed && len(band) > 0 {
		p.Kind = either
		p.Note = "output inside the 1 s finality band"
	}
	return stepOut{P: p,
		OnSuccess: func(res *txRes) []mismatch {
			for _, i := range band {
				m.observe(b, i, bc.Height, false)
			}
			for i := x.OutputIndex; i < b.NextOutIdx; i++ {
				delete(b.Outputs, i)
			}
			b.NextOutIdx = x.OutputIndex
			return nil
		},
		OnFail: func(res *txRes) {
			// the only admissible cause left is "a band output is final"; with a
			// single candidate the observation is attributable
			if p.Kind == either && len(band) == 1 {
				m.observe(b, band[0], bc.Height, true)
			}
		}}
}

// ---- finalize withdrawal: independent verifier ----
func (m *modelL1) stepFinalize(x *ophosttypes.MsgFinalizeTokenWithdrawal, bc blockCtx) stepOut {
	var p pred
	to, okTo := validAddr(x.To)
	if _, ok := validAddr(x.Sender); !ok || len(x.From) == 0 || !okTo || !x.Amount.IsValid() || x.Amount.IsZero() || x.Sequence == 0 ||
		x.BridgeId == 0 || x.OutputIndex == 0 || len(x.Version) != 1 || len(x.StorageRoot) != 32 || len(x.LastBlockHash) != 32 {
		p.failBecause("claim.invalid-msg", "invalid-claim-msg", "C03")
	}
	for _, pr := range x.WithdrawalProofs {
		if len(pr) != 32 {
			p.failBecause("claim.invalid-msg", "invalid-proof-item-length", "C03")
		}
	}
	b := m.Bridges[x.BridgeId]
	if b == nil {
		p.failBecause("claim.no-such-bridge", "claim-no-bridge", "C03", "C01")
		return stepOut{P: p}
	}
	o := b.Outputs[x.OutputIndex]
	if o == nil {
		p.failBecause("claim.no-such-output", "claim-missing-output", "C03", "C05")
		return stepOut{P: p}
	}
	if p.Kind == mustFail {
		return stepOut{P: p}
	}
	f := m.fin(b, x.OutputIndex, bc.Height, bc.Time)
	if f == triNo {
		p.failBecause("claim.not-final", "claim-before-finality", "C05")
	}
	var sr, bh prover.Hash
	copy(sr[:], x.StorageRoot)
	copy(bh[:], x.LastBlockHash)
	if prover.OutputRoot(x.Version[0], sr, bh) != o.Root {
		p.failBecause("claim.output-root-mismatch", "claim-output-root-mismatch", "C03")
	}
	var leaf prover.Hash
	if !x.Amount.Amount.IsUint64() {
		p.failBecause("claim.amount-over-64-bits", "claim-amount-over-64-bits", "C03", "C01")
	} else {
		leaf = prover.Leaf(x.BridgeId, x.Sequence, x.From, x.To, x.Amount.Denom, x.Amount.Amount.Uint64())
		var proof []prover.Hash
		for _, pr := range x.WithdrawalProofs {
			var h prover.Hash
			copy(h[:], pr)
			proof = append(proof, h)
		}
		if prover.Climb(leaf, proof) != sr {
			p.failBecause("claim.proof-mismatch", "claim-proof-mismatch", "C03")
		}
		if b.Claims[leaf] {
			p.failBecause("claim.already-claimed", "claim-already-claimed", "C02", "C01", "C08")
		}
	}
	if p.Kind != mustFail && m.Bal.get(prover.Escrow(b.ID), x.Amount.Denom).Cmp(x.Amount.Amount.BigInt()) < 0 {
		p.failBecause("claim.escrow-underfunded", "claim-escrow-underfunded", "C01", "C02")
	}
	if p.Kind == mustSucceed && f == triBand {
		p.Kind = either
		p.Note = "claim inside the 1 s finality band"
	}
	return stepOut{P: p,
		OnSuccess: func(res *txRes) []mismatch {
			if f == triBand {
				m.observe(b, x.OutputIndex, bc.Height, true)
			}
			if x.OutputIndex > b.EverFinal {
				b.EverFinal = x.OutputIndex
			}
			b.Claims[leaf] = true
			b.PaidCount[leaf]++
			amt := x.Amount.Amount.BigInt()
			m.Bal.add(prover.Escrow(b.ID), x.Amount.Denom, new(big.Int).Neg(amt))
			m.Bal.add(to, x.Amount.Denom, amt)
			var out []mismatch
			evs := attrsOf(res, "finalize_token_withdrawal")
			if len(evs) != 1 {
				out = append(out, mm("claim.event-count", "claim-event", []string{"C02", "C08"}, "%d finalize_token_withdrawal events", len(evs)))
			}
			return out
		},
		OnFail: func(res *txRes) {
			if p.Kind == either && f == triBand {
				m.observe(b, x.OutputIndex, bc.Height, false)
			}
		}}
}

// checkFinalizedResp validates the (output index, l2 block number) pair that
// the role/batch/metadata update handlers report as "last finalized".
func (m *modelL1) checkFinalizedResp(b *mBridge, bc blockCtx, idx, l2 uint64, where string) []mismatch {
	lo, hi := m.lastFinalBounds(b, bc.Height, bc.Time)
	var out []mismatch
	if idx < lo || idx > hi {
		out = append(out, mm("lastfinal.response", "last-finalized-in-"+where, []string{"C05", "C11"}, "%s reported last finalized output %d, admissible range [%d,%d]", where, idx, lo, hi))
		return out
	}
	if idx > 0 {
		if o := b.Outputs[idx]; o == nil || o.L2Block != l2 {
			out = append(out, mm("lastfinal.response", "last-finalized-l2block-in-"+where, []string{"C05", "C11"}, "%s reported l2 block %d for output %d", where, l2, idx))
		}
		if idx > lo {
			m.observe(b, idx, bc.Height, true)
		}
	} else if l2 != 0 {
		out = append(out, mm("lastfinal.response", "last-finalized-l2block-in-"+where, []string{"C05", "C11"}, "%s reported l2 block %d with no final output", where, l2))
	}
	for i := idx + 1; i <= hi; i++ {
		m.observe(b, i, bc.Height, false)
	}
	return out
}

// ---- proposer / challenger update ----
func (m *modelL1) stepRole(authority string, bridgeID uint64, role, newAddr string, bc blockCtx, set func(b *mBridge)) stepOut {
	var p pred
	_, ok1 := validAddr(authority)
	newBz, ok2 := validAddr(newAddr)
	if !ok1 || !ok2 || bridgeID == 0 {
		p.failBecause("role.invalid", "invalid-role-msg", "C12")
	}
	b := m.Bridges[bridgeID]
	if b == nil {
		p.failBecause("role.no-such-bridge", "role-no-bridge", "C12")
		return stepOut{P: p}
	}
	cur := b.Cfg.Proposer
	if role == "challenger" {
		cur = b.Cfg.Challenger
	}
	if authority != m.Gov && authority != cur {
		p.failBecause("auth.update-"+role, "update-"+role+"-by-unauthorised", "C12")
	}
	var chans []permChan
	if role == "challenger" {
		ok, cs, certain := parsePermMetadata(b.Cfg.Metadata)
		if !certain {
			return stepOut{P: pred{Kind: either}, OnSuccess: func(res *txRes) []mismatch {
				return []mismatch{{"model.abstain", "ambiguous-metadata", nil, "ambiguous stored metadata"}}
			}}
		}
		if ok {
			chans = cs
		}
	}
	return stepOut{P: p, OnSuccess: func(res *txRes) []mismatch {
		set(b)
		for _, pc := range chans {
			m.Admin[ck(pc)] = string(newBz)
		}
		var out []mismatch
		if len(res.Resps) == 1 {
			switch r := res.Resps[0].(type) {
			case *ophosttypes.MsgUpdateProposerResponse:
				out = append(out, m.checkFinalizedResp(b, bc, r.OutputIndex, r.L2BlockNumber, "update_proposer")...)
			case *ophosttypes.MsgUpdateChallengerResponse:
				out = append(out, m.checkFinalizedResp(b, bc, r.OutputIndex, r.L2BlockNumber, "update_challenger")...)
			}
		}
		return out
	}}
}

// ---- batch info ----
func (m *modelL1) stepBatchInfo(x *ophosttypes.MsgUpdateBatchInfo, bc blockCtx) stepOut {
	var p pred
	if _, ok := validAddr(x.Authority); !ok || x.BridgeId == 0 || x.NewBatchInfo.ChainType == ophosttypes.BatchInfo_CHAIN_TYPE_UNSPECIFIED || x.NewBatchInfo.Submitter == "" {
		p.failBecause("batchinfo.invalid", "invalid-batchinfo-msg", "C12")
	}
	b := m.Bridges[x.BridgeId]
	if b == nil {
		p.failBecause("batchinfo.no-such-bridge", "batchinfo-no-bridge", "C12")
		return stepOut{P: p}
	}
	if x.Authority != m.Gov && x.Authority != b.Cfg.Proposer {
		p.failBecause("auth.update-batch-info", "update-batch-info-by-unauthorised", "C12")
	}
	return stepOut{P: p, OnSuccess: func(res *txRes) []mismatch {
		b.Cfg.BatchInfo = x.NewBatchInfo
		var out []mismatch
		var idx uint64
		if len(res.Resps) == 1 {
			if r, ok := res.Resps[0].(*ophosttypes.MsgUpdateBatchInfoResponse); ok {
				out = append(out, m.checkFinalizedResp(b, bc, r.OutputIndex, r.L2BlockNumber, "update_batch_info")...)
				idx = r.OutputIndex
			}
		}
		mb := mBatch{ChainType: int32(x.NewBatchInfo.ChainType), Submitter: x.NewBatchInfo.Submitter, OutIdx: idx}
		if o := b.Outputs[idx]; o != nil {
			mb.Out = *o
		}
		b.Batches = append(b.Batches, mb)
		return out
	}}
}

// ---- metadata ----
func (m *modelL1) stepMetadata(x *ophosttypes.MsgUpdateMetadata, bc blockCtx) stepOut {
	var p pred
	if _, ok := validAddr(x.Authority); !ok || x.BridgeId == 0 || len(x.Metadata) > ophosttypes.MaxMetadataLength {
		p.failBecause("metadata.invalid", "invalid-metadata-msg", "C12", "C19")
	}
	b := m.Bridges[x.BridgeId]
	if b == nil {
		p.failBecause("metadata.no-such-bridge", "metadata-no-bridge", "C12")
		return stepOut{P: p}
	}
	if x.Authority != m.Gov && x.Authority != b.Cfg.Proposer {
		p.failBecause("auth.update-metadata", "update-metadata-by-unauthorised", "C12")
	}
	var grant map[string]string
	chall, _ := validAddr(b.Cfg.Challenger)
	ok, chans, certain := parsePermMetadata(x.Metadata)
	if !certain {
		return stepOut{P: pred{Kind: either}, OnSuccess: func(res *txRes) []mismatch {
			return []mismatch{{"model.abstain", "ambiguous-metadata", nil, "ambiguous metadata"}}
		}}
	}
	if ok {
		all, _, g := m.grantAll(chans, chall)
		if !all {
			p.failBecause("hook.channel-not-grantable", "metadata-channel-not-grantable", "C19")
		}
		grant = g
	}
	return stepOut{P: p, OnSuccess: func(res *txRes) []mismatch {
		b.Cfg.Metadata = append([]byte{}, x.Metadata...)
		for k, v := range grant {
			m.Admin[k] = v
		}
		var out []mismatch
		if len(res.Resps) == 1 {
			if r, ok := res.Resps[0].(*ophosttypes.MsgUpdateMetadataResponse); ok {
				out = append(out, m.checkFinalizedResp(b, bc, r.OutputIndex, r.L2BlockNumber, "update_metadata")...)
			}
		}
		return out
	}}
}

func (m *modelL1) stepOracleCfg(x *ophosttypes.MsgUpdateOracleConfig, bc blockCtx) stepOut {
	var p pred
	if _, ok := validAddr(x.Authority); !ok || x.BridgeId == 0 {
		p.failBecause("oraclecfg.invalid", "invalid-oraclecfg-msg", "C12")
	}
	b := m.Bridges[x.BridgeId]
	if b == nil {
		p.failBecause("oraclecfg.no-such-bridge", "oraclecfg-no-bridge", "C12")
		return stepOut{P: p}
	}
	if x.Authority != m.Gov && x.Authority != b.Cfg.Proposer {
		p.failBecause("auth.update-oracle-config", "update-oracle-config-by-unauthorised", "C12")
	}
	return stepOut{P: p, OnSuccess: func(res *txRes) []mismatch {
		b.Cfg.OracleEnabled = x.OracleEnabled
		return nil
	}}
}

func (m *modelL1) stepParams(x *ophosttypes.MsgUpdateParams, bc blockCtx) stepOut {
	var p pred
	if _, ok := validAddr(x.Authority); !ok || x.Params == nil || x.Params.RegistrationFee.Validate() != nil {
		p.failBecause("params.invalid", "invalid-params-msg", "C12")
	}
	if x.Authority != m.Gov {
		p.failBecause("auth.update-params", "update-params-by-non-gov", "C12")
	}
	return stepOut{P: p, OnSuccess: func(res *txRes) []mismatch {
		m.RegFee = x.Params.RegistrationFee
		return nil
	}}
}

func (m *modelL1) stepRecordBatch(x *ophosttypes.MsgRecordBatch, bc blockCtx) stepOut {
	var p pred
	if _, ok := validAddr(x.Submitter); !ok || x.BridgeId == 0 || len(x.BatchBytes) == 0 {
		p.failBecause("recordbatch.invalid", "invalid-recordbatch-msg", "C12")
	}
	return stepOut{P: p}
}

func (m *modelL1) stepBankSend(x *banktypes.MsgSend, bc blockCtx) stepOut {
	var p pred
	from, ok1 := validAddr(x.FromAddress)
	to, ok2 := validAddr(x.ToAddress)
	if !ok1 || !ok2 || !x.Amount.IsValid() || !x.Amount.IsAllPositive() {
		p.failBecause("send.invalid", "invalid-send", "C01", "C09")
		return stepOut{P: p}
	}
	for _, c := range x.Amount {
		if m.Bal.get(from, c.Denom).Cmp(c.Amount.BigInt()) < 0 {
			p.failBecause("send.insufficient", "send-insufficient", "C01")
		}
	}
	// a bridge escrow can never be the signer of a plain bank send in the
	// simulation (it has no key); the generator does not produce such sends.
	return stepOut{P: p, OnSuccess: func(res *txRes) []mismatch {
		for _, c := range x.Amount {
			m.Bal.add(from, c.Denom, new(big.Int).Neg(c.Amount.BigInt()))
			m.Bal.add(to, c.Denom, c.Amount.BigInt())
		}
		return nil
	}}
}
