package scen

import (
	"encoding/json"
	"fmt"
	"math/big"
	"sort"
	"strings"
	"time"

	sdk "github.com/cosmos/cosmos-sdk/types"

	ophosttypes "github.com/initia-labs/OPinit/x/ophost/types"

	"opsim/prover"
)

// ---------------------------------------------------------------------------
// Reference model of the L1 side, written from the property statements.  It
// uses OPinit's message/config structs as plain data containers only and never
// calls the functions it is used to check (hashes come from opsim/prover).
// ---------------------------------------------------------------------------

type predKind int

const (
	mustSucceed predKind = iota
	mustFail
	either
)

// reason explains why the model expects a failure (or names the completeness
// obligation when a predicted success fails).
type reason struct {
	Inv    string   // invariant id
	Key    string   // finding key (input class / call site)
	Owners []string // properties whose oracle owns this expectation
}

type pred struct {
	Kind    predKind
	Reasons []reason
	Note    string
}

func (p *pred) failBecause(inv, key string, owners ...string) {
	p.Kind = mustFail
	p.Reasons = append(p.Reasons, reason{inv, key, owners})
}

type mOutput struct {
	Root     prover.Hash
	L1Height int64
	L1Time   time.Time
	L2Block  uint64
	// harness knowledge about what the root commits to (nil for junk roots)
	Commit *commitment
}

type commitment struct {
	Version   byte
	Storage   prover.Hash
	BlockHash prover.Hash
	Tree      *prover.Tree
	Leaves    []int // indices into the bridge's withdrawal universe
}

type withdrawal struct {
	Seq    uint64
	From   string
	To     string
	Denom  string
	Amount uint64
}

func (w withdrawal) leaf(bridge uint64) prover.Hash {
	return prover.Leaf(bridge, w.Seq, w.From, w.To, w.Denom, w.Amount)
}

type mBatch struct {
	ChainType int32
	Submitter string
	OutIdx    uint64 // 0 = empty output
	Out       mOutput
}

type mBridge struct {
	ID         uint64
	Cfg        ophosttypes.BridgeConfig
	NextL1Seq  uint64
	NextOutIdx uint64
	Outputs    map[uint64]*mOutput
	Claims     map[prover.Hash]bool
	Pairs      map[string]string // l2 denom -> l1 denom
	Batches    []mBatch
	EverFinal  uint64 // highest index ever observed final
	Universe   []withdrawal
	PaidCount  map[prover.Hash]int
}

type ledger map[string]map[string]*big.Int // address bytes (as string) -> denom -> amount

func (l ledger) get(addr []byte, denom string) *big.Int {
	if m, ok := l[string(addr)]; ok {
		if v, ok := m[denom]; ok {
			return v
		}
	}
	return new(big.Int)
}

func (l ledger) add(addr []byte, denom string, d *big.Int) {
	m, ok := l[string(addr)]
	if !ok {
		m = map[string]*big.Int{}
		l[string(addr)] = m
	}
	v, ok := m[denom]
	if !ok {
		v = new(big.Int)
		m[denom] = v
	}
	v.Add(v, d)
	if v.Sign() == 0 {
		delete(m, denom)
	}
}

func (l ledger) clone() ledger {
	o := ledger{}
	for a, m := range l {
		mm := map[string]*big.Int{}
		for d, v := range m {
			mm[d] = new(big.Int).Set(v)
		}
		o[a] = mm
	}
	return o
}

type modelL1 struct {
	Gov          string
	Bridges      map[uint64]*mBridge
	NextBridgeID uint64
	Bal          ledger
	RegFee       sdk.Coins
	DistrAddr    []byte
	// IBC stub tables (C19)
	ChanSeq map[string]uint64 // port/channel -> next send sequence
	Admin   map[string]string // port/channel -> admin (address bytes as string)
	// band observations: finality answers seen inside the 1 s ambiguity band
	bandObs map[string]bool
}

func newModelL1(gov string, distr []byte) *modelL1 {
	return &modelL1{Gov: gov, Bridges: map[uint64]*mBridge{}, NextBridgeID: 1, Bal: ledger{}, DistrAddr: distr,
		ChanSeq: map[string]uint64{}, Admin: map[string]string{}, bandObs: map[string]bool{}}
}

func (m *modelL1) clone() *modelL1 {
	o := &modelL1{Gov: m.Gov, Bridges: map[uint64]*mBridge{}, NextBridgeID: m.NextBridgeID, Bal: m.Bal.clone(), RegFee: m.RegFee,
		DistrAddr: m.DistrAddr, ChanSeq: map[string]uint64{}, Admin: map[string]string{}, bandObs: map[string]bool{}}
	for k, v := range m.ChanSeq {
		o.ChanSeq[k] = v
	}
	for k, v := range m.Admin {
		o.Admin[k] = v
	}
	for k, v := range m.bandObs {
		o.bandObs[k] = v
	}
	for id, b := range m.Bridges {
		nb := &mBridge{ID: b.ID, Cfg: b.Cfg, NextL1Seq: b.NextL1Seq, NextOutIdx: b.NextOutIdx, Outputs: map[uint64]*mOutput{},
			Claims: map[prover.Hash]bool{}, Pairs: map[string]string{}, Batches: append([]mBatch{}, b.Batches...), EverFinal: b.EverFinal,
			Universe: b.Universe, PaidCount: map[prover.Hash]int{}}
		nb.Cfg.Metadata = append([]byte{}, b.Cfg.Metadata...)
		for i, o2 := range b.Outputs {
			c := *o2
			nb.Outputs[i] = &c
		}
		for h := range b.Claims {
			nb.Claims[h] = true
		}
		for h, n := range b.PaidCount {
			nb.PaidCount[h] = n
		}
		for k, v := range b.Pairs {
			nb.Pairs[k] = v
		}
		o.Bridges[id] = nb
	}
	return o
}

func (m *modelL1) bridgeIDs() []uint64 {
	ids := make([]uint64, 0, len(m.Bridges))
	for id := range m.Bridges {
		ids = append(ids, id)
	}
	sort.Slice(ids, func(i, j int) bool { return ids[i] < ids[j] })
	return ids
}

// ---- finality, stated in real time with an explicit 1 s ambiguity band ----

type tri int

const (
	triNo tri = iota
	triYes
	triBand
)

// finalAt: Yes when T >= tp+P, No when T <= tp+P-1s, Band in between.  All
// arithmetic in unbounded integers (nanoseconds), so no overflow semantics of
// the implementation leak into the oracle.
func finalAt(tp time.Time, period time.Duration, T time.Time) tri {
	tpN := new(big.Int).Mul(big.NewInt(tp.Unix()), big.NewInt(1e9))
	tpN.Add(tpN, big.NewInt(int64(tp.Nanosecond())))
	dl := new(big.Int).Add(tpN, big.NewInt(int64(period)))
	tN := new(big.Int).Mul(big.NewInt(T.Unix()), big.NewInt(1e9))
	tN.Add(tN, big.NewInt(int64(T.Nanosecond())))
	if tN.Cmp(dl) >= 0 {
		return triYes
	}
	lo := new(big.Int).Sub(dl, big.NewInt(1e9))
	if tN.Cmp(lo) <= 0 {
		return triNo
	}
	return triBand
}

func obsKey(bridge, idx uint64, height int64) string {
	return fmt.Sprintf("%d/%d/%d", bridge, idx, height)
}

// fin classifies an output at block (height,T) taking earlier observations
// into account: once seen final, always final.
func (m *modelL1) fin(b *mBridge, idx uint64, height int64, T time.Time) tri {
	o := b.Outputs[idx]
	if o == nil {
		return triNo
	}
	if idx <= b.EverFinal {
		return triYes
	}
	t := finalAt(o.L1Time, b.Cfg.FinalizationPeriod, T)
	if t == triBand {
		if v, ok := m.bandObs[obsKey(b.ID, idx, height)]; ok {
			if v {
				return triYes
			}
			return triNo
		}
	}
	return t
}

func (m *modelL1) observe(b *mBridge, idx uint64, height int64, final bool) {
	m.bandObs[obsKey(b.ID, idx, height)] = final
	if final && idx > b.EverFinal {
		b.EverFinal = idx
	}
}

// lastFinalBounds returns the lowest and highest admissible answers for
// "highest final index" at (height,T).
func (m *modelL1) lastFinalBounds(b *mBridge, height int64, T time.Time) (lo, hi uint64) {
	for idx := uint64(1); idx < b.NextOutIdx; idx++ {
		switch m.fin(b, idx, height, T) {
		case triYes:
			if idx > lo {
				lo = idx
			}
			if idx > hi {
				hi = idx
			}
		case triBand:
			if idx > hi {
				hi = idx
			}
		}
	}
	if hi < lo {
		hi = lo
	}
	return
}

// ---- metadata: independent decision "parses as the documented structure" ----

type permChan struct{ Port, Channel string }

// parsePermMetadata returns (ok, channels, certain).  certain=false marks
// inputs on which the documented structure is ambiguous (duplicate or
// differently-cased keys next to the exact key): the model abstains there.
func parsePermMetadata(md []byte) (ok bool, chans []permChan, certain bool) {
	if len(md) == 0 {
		return false, nil, true
	}
	var top map[string]json.RawMessage
	if err := json.Unmarshal(md, &top); err != nil || top == nil {
		return false, nil, true
	}
	raw, has := top["perm_channels"]
	if !has {
		return false, nil, true
	}
	// ambiguity: another key that equals perm_channels up to case, or a duplicated exact key
	for k := range top {
		if k != "perm_channels" && strings.EqualFold(k, "perm_channels") {
			return false, nil, false
		}
	}
	if strings.Count(string(md), "\"perm_channels\"") > 1 {
		return false, nil, false
	}
	if len(top) != 1 {
		return false, nil, true // unknown extra field: strict decoding refuses
	}
	if string(raw) == "null" {
		return true, nil, true
	}
	var list []map[string]json.RawMessage
	if err := json.Unmarshal(raw, &list); err != nil {
		return false, nil, true
	}
	for _, e := range list {
		if e == nil {
			// a null element decodes to the zero value
			chans = append(chans, permChan{})
			continue
		}
		var pc permChan
		for k, v := range e {
			var s string
			switch k {
			case "port_id":
				if string(v) == "null" {
					continue
				}
				if err := json.Unmarshal(v, &s); err != nil {
					return false, nil, true
				}
				pc.Port = s
			case "channel_id":
				if string(v) == "null" {
					continue
				}
				if err := json.Unmarshal(v, &s); err != nil {
					return false, nil, true
				}
				pc.Channel = s
			default:
				if strings.EqualFold(k, "port_id") || strings.EqualFold(k, "channel_id") {
					return false, nil, false
				}
				return false, nil, true
			}
		}
		chans = append(chans, pc)
	}
	return true, chans, true
}

func ck(p permChan) string { return p.Port + "/" + p.Channel }

// grantAll applies the create/update-metadata rule to a list of channels on a
// scratch copy of the tables; returns false if the whole operation must fail,
// and sameAdmin=true if the verdict hinged on the "already administered by the
// same challenger" clause (where the property leaves the outcome open).
func (m *modelL1) grantAll(chans []permChan, challenger []byte) (okAll bool, sameAdminCase bool, newAdmin map[string]string) {
	newAdmin = map[string]string{}
	cur := func(k string) (string, bool) {
		if v, ok := newAdmin[k]; ok {
			return v, true
		}
		v, ok := m.Admin[k]
		return v, ok
	}
	for _, pc := range chans {
		k := ck(pc)
		if adm, taken := cur(k); taken {
			if adm == string(challenger) {
				sameAdminCase = true
				continue
			}
			return false, sameAdminCase, nil
		}
		seq, exists := m.ChanSeq[k]
		if !exists || seq != 1 {
			return false, sameAdminCase, nil
		}
		newAdmin[k] = string(challenger)
	}
	return true, sameAdminCase, newAdmin
}

func validAddr(s string) ([]byte, bool) {
	a, err := sdk.AccAddressFromBech32(s)
	if err != nil || len(a) == 0 {
		return nil, false
	}
	return a, true
}

func coinsToBig(c sdk.Coin) *big.Int { return new(big.Int).Set(c.Amount.BigInt()) }
