package scen

import (
	"bytes"
	"encoding/hex"
	"fmt"
	"math/big"
	"sort"
	"strings"
	"time"

	"cosmossdk.io/math"
	abci "github.com/cometbft/cometbft/abci/types"
	dbm "github.com/cosmos/cosmos-db"
	codectypes "github.com/cosmos/cosmos-sdk/codec/types"
	sdk "github.com/cosmos/cosmos-sdk/types"
	authtypes "github.com/cosmos/cosmos-sdk/x/auth/types"
	banktypes "github.com/cosmos/cosmos-sdk/x/bank/types"
	"github.com/cosmos/gogoproto/proto"

	opchildtypes "github.com/initia-labs/OPinit/x/opchild/types"
	ophosttypes "github.com/initia-labs/OPinit/x/ophost/types"

	"opsim/core"
	"opsim/engine"
	"opsim/node"
	"opsim/prover"
)

type l2Profile struct {
	Prop            string
	Blocks          [2]int
	MaxTx           int
	W               map[string]int
	Crash           int
	DepFault        int
	GasAbort        int
	Hooks           int // % of deposits carrying a payload
	BadRcpt         int // % of deposits with a malformed / blocked recipient
	Plans           bool
	Reimport        int    // % of blocks preceded by a restart of the chain from its exported genesis
	ClientID        string // when set, the genesis bridge info is present and bound to this L1 light client
	ForceBridgeInfo bool
	NodeMinGas      string   // node-local min gas prices of the world's own node
	ExtraDenoms     []string // additional native denoms every user holds (fee denoms)
	WhaleFees       bool
	Pairs           []string
	NonTriv         func(w *l2World) bool
}

// l1Deposit is what L1 emitted for one sequence (fabricated in the L2-only world).
type l1Deposit struct {
	Seq       uint64
	From, To  string
	Amount    sdk.Coin
	BaseDenom string
	Height    uint64
	Data      []byte
}

type l2World struct {
	r   *core.Run
	p   *l2Profile
	db  *dbm.MemDB
	n   *node.L2
	m   *modelL2
	enc node.Encoding
	eng *engine.Engine

	users              []sdk.AccAddress
	ustr               []string
	keyed              []string // labels of users with signing keys (hook signers)
	executors          []string
	outsider           string
	admin              string
	bases              []string
	bridgeID           uint64
	now                time.Time
	deps               map[uint64]*l1Deposit
	valPool            []string // labels of candidate validators
	plans              []node.PlanReg
	planAt             map[uint64]*node.PlanReg
	prevDig            map[string][32]byte
	succ               map[string]int
	lastStart          map[string]int64           // bonded set at the start of the current block (operator -> power)
	hist               map[int64]map[string]int64 // height -> bonded set (pubkey hex -> power) at the start of that height
	avoidKnown         bool
	planKey            map[uint64]string // plan height -> validator key label
	planOp             map[uint64]string // plan height -> operator label
	histEntriesAtBegin uint32
	histWritten        map[int64]bool
	noWrap             bool
	ownAll             bool
	replicas           []*l2Replica
	recent             [][]byte   // recently broadcast transactions (client traffic re-uses them)
	planExecs          string     // the executor list installed by the last executor-change plan (printed form)
	foreignAddr        bool       // the bound bridge address carries the L1's own bech32 prefix
	noL1Chain          bool       // the bound bridge info carries an empty L1 chain id
	caseTwin           string     // an L2-native denom that equals a bridged denom up to letter case ("" if none)
	hookOuter          *l1Deposit // the deposit a payload is being built for (class nested)
	lenient            bool       // see l1World
	sidePct            int        // % of schedule points with client traffic on discarded branches
	feeBook            []feeEntry // declared fee per tx of the block being executed (C20); nil = fees are zero
	genesis            *node.L2Genesis
	pendingHost        []node.HostSetUpdate
	l1Rcpts            []string // valid L1 recipient strings (set by the two-chain world)
	lastRes            *abci.ResponseFinalizeBlock
	lastFired          []bool
	lastCalls          [][]string
	planClass          string
	opts               node.L2Options
}

func keyAddrOf(label string) string { return string(node.KeyAddr(label)) }

func (w *l2World) own(owners []string) bool {
	if w.ownAll {
		return true
	}
	for _, o := range owners {
		if o == w.p.Prop {
			return true
		}
	}
	return false
}

func (w *l2World) fail(m mismatch) *core.Violation {
	if w.planClass != "" && (strings.HasPrefix(m.Inv, "validators.") || strings.HasPrefix(m.Inv, "plan.") || strings.HasPrefix(m.Inv, "engine.")) {
		m.Key = "plan/" + w.planClass
	}
	switch m.Inv {
	case "complete.relay", "complete.relaybatch", "complete.bridgeinfo", "auth.finalize-deposit", "auth.set-bridge-info":
		// while the executor list is the one a plan installed, who may act as executor is also C14's business
		if w.planExecs != "" && w.planExecs == fmt.Sprint(w.m.Params.BridgeExecutors) {
			m.Owners = append(append([]string{}, m.Owners...), "C14")
		}
	}
	if w.own(m.Owners) {
		return w.r.Viol(m.Inv, m.Key, "%s", m.Msg)
	}
	if w.lenient {
		w.r.Logf("(not judged here, owned by %v) %s: %s", m.Owners, m.Inv, m.Msg)
		return nil
	}
	panic(core.Abort{Reason: "foreign:" + m.Inv})
}

func valOperator(label string) sdk.ValAddress { return sdk.ValAddress(node.Addr("valoper/" + label)) }

func mkValidator(label string, power int64) opchildtypes.Validator {
	pk := node.ValKey(label).PubKey()
	v, err := opchildtypes.NewValidator(valOperator(label), pk, "mon-"+label)
	if err != nil {
		panic(err)
	}
	v.ConsPower = power
	return v
}

func newL2World(r *core.Run, p *l2Profile) *l2World { return newL2WorldOpt(r, p, 0, nil) }

// newL2WorldOpt: fixedBridge / bases are set by the two-chain world so that both chains agree.
func newL2WorldOpt(r *core.Run, p *l2Profile, fixedBridge uint64, bases []string) *l2World {
	w := &l2World{r: r, p: p, db: dbm.NewMemDB(), deps: map[uint64]*l1Deposit{}, prevDig: map[string][32]byte{}, succ: map[string]int{},
		planAt: map[uint64]*node.PlanReg{}, hist: map[int64]map[string]int64{}, planKey: map[uint64]string{}, planOp: map[uint64]string{}, histWritten: map[int64]bool{}}
	authority := authtypes.NewModuleAddress(opchildtypes.ModuleName).String()
	w.m = newModelL2(p.Prop, authority)
	w.bridgeID = 1 + uint64(r.Intn(3))
	nb := 1 + r.Intn(3)
	w.bases = []string{"uinit", "uusdc", "ibc/27394FB092D2ECCD56123C74F36E4C1F926001CEADA9CA97EA622B25F41E5EB2"}[:nb]
	if r.Chance(1, 4) {
		// L1 denoms of the greatest legal length (and just below it)
		long := "factory/" + strings.Repeat("x", 119)
		w.bases = append(w.bases, long+"a", long[:116])
	}
	if fixedBridge != 0 {
		w.bridgeID = fixedBridge
		w.bases = bases
		nb = len(bases)
	}
	w.now = simEpoch.Add(epochShift(r)).Add(time.Duration(r.Intn(1000)) * time.Millisecond)
	bal := map[string]sdk.Coins{}
	nk := 2 + r.Intn(2)
	for i := 0; i < nk; i++ {
		lbl := fmt.Sprintf("keyed/%d", i)
		w.keyed = append(w.keyed, lbl)
		a := node.KeyAddr(lbl)
		w.users = append(w.users, a)
	}
	nu := 2 + r.Intn(3)
	for i := 0; i < nu; i++ {
		w.users = append(w.users, node.AddrN("l2user", i))
	}
	nex := 1 + r.Intn(3)
	for i := 0; i < 5; i++ {
		a := node.AddrN("executor", i) // all candidate executors have accounts; the first nex are listed at genesis
		w.users = append(w.users, a)
		if i < nex {
			w.executors = append(w.executors, a.String())
		}
	}
	if r.Chance(1, 4) {
		// one of the genesis executors is also an ordinary key-holding user of the L2
		w.executors = append(w.executors, node.KeyAddr(w.keyed[0]).String())
	}
	out := node.Addr("outsider")
	w.users = append(w.users, out)
	w.outsider = out.String()
	adm := node.Addr("admin")
	w.users = append(w.users, adm)
	w.admin = adm.String()
	if r.Chance(1, 6) {
		// the admin is one of the key-holding users of the L2 (and can therefore sign deposit payloads)
		w.admin = node.KeyAddr(w.keyed[0]).String()
	}
	for _, a := range w.users {
		w.ustr = append(w.ustr, a.String())
		amt := uint64(1_000_000 + r.Intn(1_000_000))
		if p.WhaleFees {
			amt = 1 << 60
		}
		cs := sdk.NewCoins(sdk.NewCoin("umin", math.NewIntFromUint64(amt)))
		w.m.Bal.add(a, "umin", new(big.Int).SetUint64(amt))
		w.m.supplyAdd("umin", new(big.Int).SetUint64(amt))
		for _, d := range p.ExtraDenoms {
			cs = cs.Add(sdk.NewCoin(d, math.NewIntFromUint64(amt)))
			w.m.Bal.add(a, d, new(big.Int).SetUint64(amt))
			w.m.supplyAdd(d, new(big.Int).SetUint64(amt))
		}
		bal[a.String()] = cs
	}
	// account numbers as assigned by the genesis builder (sorted bech32 order)
	sorted := append([]string{}, w.ustr...)
	sort.Strings(sorted)
	for i, s := range sorted {
		for _, lbl := range w.keyed {
			if node.KeyAddr(lbl).String() == s {
				w.m.AcctNum[lbl] = uint64(i)
			}
		}
	}
	for name := range map[string]bool{authtypes.FeeCollectorName: true, opchildtypes.ModuleName: true, authtypes.Minter: true, node.LazyModule: true} {
		w.m.Blocked[string(authtypes.NewModuleAddress(name))] = true
	}
	// genesis validators
	ng := 1 + r.Intn(3)
	for i := 0; i < 6; i++ {
		w.valPool = append(w.valPool, fmt.Sprintf("v%d", i))
	}
	if r.Chance(1, 5) {
		// the chain allows secp256k1 consensus keys too; one candidate validator has such a key (in half of
		// these worlds it is a genesis validator)
		w.opts.SecpVals = true
		w.m.SecpVals = true
		if r.Chance(1, 2) {
			w.valPool = append([]string{"secp0", "secp1"}, w.valPool...)
		} else {
			w.valPool = append(w.valPool, "secp0", "secp1")
		}
	}
	gen := opchildtypes.DefaultGenesisState()
	if r.Chance(1, 6) {
		// a genesis built without the defaults leaves both sequence fields at 0, which means "start at 1"
		gen.NextL1Sequence, gen.NextL2Sequence = 0, 0
	}
	hookGas := []uint64{0, 60_000, 1_000_000, 3_000_000}[r.Weighted([]int{1, 1, 6, 2})]
	if hookGas > 0 {
		// not only round allowances: where inside a charge the allowance runs out differs from world to world
		hookGas += uint64(r.Intn(5000))
	}
	gen.Params = opchildtypes.NewParams(w.admin, w.executors, uint32(ng+r.Intn(4)), uint32(r.Intn(5)), sdk.NewDecCoins(), nil, hookGas)
	if p.WhaleFees && r.Chance(1, 2) {
		// (fee scenarios) the genesis file already lists fee-exempt accounts, in the order somebody typed them
		for i, n := 0, 2+r.Intn(3); i < n; i++ {
			gen.Params.FeeWhitelist = append(gen.Params.FeeWhitelist, w.ustr[r.Intn(len(w.ustr))])
		}
	}
	for i := 0; i < ng; i++ {
		pw := []int64{1, 1, 1, 2, 5}[r.Intn(5)] // a genesis may give validators other powers than the 1 that MsgAddValidator assigns
		v := mkValidator(w.valPool[i], pw)
		if strings.HasPrefix(w.valPool[i], "secp") {
			r.Probe("validators.secp256k1-genesis-validator")
		}
		gen.Validators = append(gen.Validators, v)
		w.m.Vals[v.OperatorAddress] = &mVal{Operator: v.OperatorAddress, OpBytes: valOperator(w.valPool[i]), PubKey: node.ValKey(w.valPool[i]).PubKey().Bytes(), Power: pw, Moniker: v.Moniker}
		if r.Chance(1, 8) {
			// the genesis file spells this operator address in upper case (the same address)
			gen.Validators[len(gen.Validators)-1].OperatorAddress = strings.ToUpper(v.OperatorAddress)
		}
	}
	if ng < len(w.valPool) && r.Chance(1, 10) {
		// a genesis file with a leftover validator entry of negative power: never bonded, dropped at the first block
		gen.Validators = append(gen.Validators, mkValidator(w.valPool[len(w.valPool)-1], -1))
		r.Probe("validators.negative-power-genesis-entry")
	}
	w.m.Params = gen.Params
	w.foreignAddr = fixedBridge == 0 && r.Chance(1, 4)
	w.noL1Chain = fixedBridge == 0 && p.ClientID == "" && !p.ForceBridgeInfo && r.Chance(1, 5)
	if p.ClientID != "" || p.ForceBridgeInfo || r.Chance(2, 3) {
		bi := w.bridgeInfo(p.ClientID)
		gen.BridgeInfo = &bi
		w.m.Bridge = &bi
	}
	pairs := []string{"BTC/USD", "ETH/USD"}
	if p.Pairs != nil {
		pairs = p.Pairs
	}
	w.opts.MinGasPrices = p.NodeMinGas

	w.genesis = &node.L2Genesis{Time: w.now, Balances: bal, Opchild: gen, CurrencyPairs: pairs}
	if r.Chance(1, 5) {
		// the operator pre-funded the opchild module account in the bank genesis (native coins, sometimes bridged ones too)
		amt := uint64(1000 + r.Intn(100_000))
		w.genesis.ModuleFunds = sdk.NewCoins(sdk.NewCoin("umin", math.NewIntFromUint64(amt)))
		w.m.Bal.add(authtypes.NewModuleAddress(opchildtypes.ModuleName), "umin", new(big.Int).SetUint64(amt))
		w.m.supplyAdd("umin", new(big.Int).SetUint64(amt))
		if fixedBridge == 0 && r.Chance(1, 2) {
			// (not in two-chain worlds: there every bridged coin on L2 is backed by the L1 escrow by premise)
			d := w.l2denom(w.bases[0])
			w.genesis.ModuleFunds = w.genesis.ModuleFunds.Add(sdk.NewCoin(d, math.NewIntFromUint64(amt)))
			w.m.Bal.add(authtypes.NewModuleAddress(opchildtypes.ModuleName), d, new(big.Int).SetUint64(amt))
			w.m.supplyAdd(d, new(big.Int).SetUint64(amt))
			bump(w.m.Credited, d, new(big.Int).SetUint64(amt)) // supply that exists from genesis counts like credited deposits in C09's equation
		}
	}
	if r.Chance(1, 5) {
		// an L2-native token whose denom is a bridged denom written in upper case (another denom for the bank)
		w.caseTwin = strings.ToUpper(w.l2denom(w.bases[0]))
		for _, a := range w.users {
			c := sdk.NewCoin(w.caseTwin, math.NewInt(5000))
			bal[a.String()] = bal[a.String()].Add(c)
			w.m.Bal.add(a, w.caseTwin, big.NewInt(5000))
			w.m.supplyAdd(w.caseTwin, big.NewInt(5000))
		}
	}
	if r.Chance(1, 4) {
		// the bank genesis already carries metadata for (some of) the bridged denoms, without any opchild denom pair
		for _, b := range w.bases {
			if r.Chance(2, 3) {
				w.genesis.ExtraMetadata = append(w.genesis.ExtraMetadata, w.l2denom(b))
			}
		}
	}
	func() {
		defer func() {
			if x := recover(); x != nil {
				// InitChain or the first block cannot be processed from a genesis that is legal by the module's own validation
				panic(core.FailNow{Inv: "block.processing-failed", Key: "genesis-block-error", Msg: fmt.Sprintf("the chain cannot start from its genesis: %v", x)})
			}
		}()
		w.n = node.NewL2(w.db, w.genesis, w.opts, nil)
	}()
	w.enc = w.n.Enc
	w.eng = engine.New([]string{"ed25519"})
	if w.opts.SecpVals {
		w.eng = engine.New([]string{"ed25519", "secp256k1"})
	}
	if err := w.eng.InitChain(w.n.InitValidators); err != nil {
		panic(core.Abort{Reason: "genesis-engine:" + err.Error()})
	}
	w.m.endBlock()
	// block 1 was executed by the node constructor
	if gen.Params.HistoricalEntries > 0 {
		w.histWritten[1] = true
	}
	w.hist[1] = w.eng.Powers()
	w.avoidKnown = r.Chance(4, 5)
	w.sidePct = []int{0, 10, 30, 60}[r.Intn(4)]
	r.Logf("L2 world: users=%d executors=%d bases=%d genesisVals=%d maxVals=%d histEntries=%d hookMaxGas=%d bridgeInfo=%v avoidKnown=%v", len(w.users), nex, nb, ng,
		gen.Params.MaxValidators, gen.Params.HistoricalEntries, hookGas, gen.BridgeInfo != nil, w.avoidKnown)
	return w
}

func (w *l2World) bridgeInfo(clientID string) opchildtypes.BridgeInfo {
	addr := sdk.AccAddress(prover.Escrow(w.bridgeID)).String()
	if w.foreignAddr {
		// the L1 uses another address prefix: the bridge address is an opaque string for the L2's codec
		addr = "init1qqqsyqcyq5rqwzqfpg9scrgwpugpzysnjscnev"
	}
	chain := node.L1ChainID
	if w.noL1Chain {
		chain = "" // a bridge info that was stored without naming the L1 chain (validation does not ask for it)
	}
	return opchildtypes.BridgeInfo{BridgeId: w.bridgeID, BridgeAddr: addr, L1ChainId: chain, L1ClientId: clientID,
		BridgeConfig: ophosttypes.BridgeConfig{Challenger: w.ustr[0], Proposer: w.ustr[1], BatchInfo: ophosttypes.BatchInfo{Submitter: w.ustr[0], ChainType: 1},
			SubmissionInterval: time.Minute, FinalizationPeriod: time.Hour, SubmissionStartHeight: 1, OracleEnabled: true}}
}

func (w *l2World) pickUser() string { return w.ustr[w.r.Intn(len(w.ustr))] }

func (w *l2World) l2denom(base string) string { return prover.L2Denom(w.bridgeID, base) }

// makeHook builds a deposit payload of a chosen class, signed by a keyed user.
func (w *l2World) makeHook(spec *modelL2, to string, dep sdk.Coin) []byte {
	lbl := w.keyed[w.r.Intn(len(w.keyed))]
	// prefer the recipient as the signer (the usual "deposit and call" pattern)
	for _, k := range w.keyed {
		if node.KeyAddr(k).String() == to && w.r.Chance(2, 3) {
			lbl = k
		}
	}
	class := []string{"good", "good", "good", "failmsg", "badsig", "staleseq", "hungry", "garbage", "unrouted", "wdhook", "wdhook+send", "wdhook+fail", "nested", "rolefail"}[w.r.Intn(14)]
	if spec.Params.Admin == node.KeyAddr(w.keyed[0]).String() && w.r.Chance(1, 4) {
		class = "rolefail"
	}
	if class == "rolefail" && spec.Params.Admin == node.KeyAddr(w.keyed[0]).String() && w.r.Chance(3, 4) {
		lbl = w.keyed[0] // the admin holds a key on this L2: let the payload be the admin's
	}
	if class == "nested" && w.hookOuter == nil {
		class = "good"
	}
	wdTail := ""
	if strings.HasPrefix(class, "wdhook+") {
		wdTail = strings.TrimPrefix(class, "wdhook+")
		class = "wdhook"
	}
	if class == "wdhook" && w.avoidKnown && core.Known.Listed(w.p.Prop, "hook-withdrawal-not-announced") {
		class = "good"
	}
	hs := &hookSpec{Class: class, Signer: lbl, Seq: spec.AcctSeq[lbl]}
	signer := node.KeyAddr(lbl)
	priv := node.Key(lbl)
	var msgs []sdk.Msg
	mkSend := func(amt *big.Int, denom string, to sdk.AccAddress) {
		msgs = append(msgs, &banktypes.MsgSend{FromAddress: signer.String(), ToAddress: to.String(), Amount: sdk.NewCoins(sdk.NewCoin(denom, math.NewIntFromBigInt(amt)))})
		hs.Sends = append(hs.Sends, hookSend{To: to, Denom: denom, Amount: amt})
	}
	gas := uint64(2_000_000)
	switch class {
	case "garbage":
		bz := make([]byte, 1+w.r.Intn(60))
		for i := range bz {
			bz[i] = byte(w.r.Intn(256))
		}
		w.m.hooks[hex.EncodeToString(bz)] = hs
		return bz
	case "good", "badsig", "staleseq":
		n := 1 + w.r.Intn(2)
		for i := 0; i < n; i++ {
			rcpt, _ := sdk.AccAddressFromBech32(w.pickUser())
			denom, amt := "umin", big.NewInt(int64(1+w.r.Intn(1000)))
			if dep.IsPositive() && signer.String() == to && w.r.Chance(1, 2) {
				denom = dep.Denom
				amt = new(big.Int).Div(dep.Amount.BigInt(), big.NewInt(int64(2+w.r.Intn(3))))
				if amt.Sign() == 0 {
					amt = big.NewInt(1)
				}
			}
			mkSend(amt, denom, rcpt)
		}
		if class == "staleseq" {
			// signed for a future account sequence: fails now, becomes valid if relayed once the signer has caught up
			hs.Seq += 1 + uint64(w.r.Intn(3))
			hs.Class = "good"
		}
	case "failmsg":
		rcpt, _ := sdk.AccAddressFromBech32(w.pickUser())
		mkSend(big.NewInt(int64(1+w.r.Intn(100))), "umin", rcpt)
		// message k fails: more than the signer can ever hold
		msgs = append(msgs, &banktypes.MsgSend{FromAddress: signer.String(), ToAddress: rcpt.String(), Amount: sdk.NewCoins(sdk.NewCoin("umin", math.NewIntFromBigInt(new(big.Int).Lsh(big.NewInt(1), 100))))})
	case "rolefail":
		// a payload that first hands the admin role and the executor list to somebody else (through the
		// admin's MsgExecuteMessages; it only gets that far when the signer is the admin) and then fails:
		// nothing of it may stay
		np := spec.Params
		np.Admin = w.outsider
		np.BridgeExecutors = []string{w.outsider}
		em, err := opchildtypes.NewMsgExecuteMessages(signer.String(), []sdk.Msg{&opchildtypes.MsgUpdateParams{Authority: w.m.Authority, Params: &np}})
		if err != nil {
			panic(err)
		}
		rcpt, _ := sdk.AccAddressFromBech32(w.pickUser())
		msgs = append(msgs, em, &banktypes.MsgSend{FromAddress: signer.String(), ToAddress: rcpt.String(), Amount: sdk.NewCoins(sdk.NewCoin("umin", math.NewIntFromBigInt(new(big.Int).Lsh(big.NewInt(1), 100))))})
		hs.Class = "failmsg"
	case "hungry":
		rcpt, _ := sdk.AccAddressFromBech32(w.pickUser())
		for i := 0; i < 150; i++ {
			mkSend(big.NewInt(1), "umin", rcpt)
		}
		gas = 500_000_000
	case "wdhook":
		// "deposit and withdraw": the signer withdraws part of a bridged balance inside the hook
		denom := dep.Denom
		amt := big.NewInt(1)
		if dep.IsPositive() && signer.String() == to {
			amt = new(big.Int).Div(dep.Amount.BigInt(), big.NewInt(int64(1+w.r.Intn(3))))
			if amt.Sign() == 0 {
				amt = big.NewInt(1)
			}
		}
		if !amt.IsUint64() {
			amt = big.NewInt(1000)
		}
		wm := &opchildtypes.MsgInitiateTokenWithdrawal{Sender: signer.String(), To: fmt.Sprintf("l1rcpt%d", w.r.Intn(3)), Amount: sdk.Coin{Denom: denom, Amount: math.NewIntFromBigInt(amt)}}
		if w.l1Rcpts != nil {
			wm.To = w.l1Rcpts[w.r.Intn(len(w.l1Rcpts))]
		}
		hs.Withdraw = wm
		msgs = append(msgs, wm)
		switch wdTail {
		case "send":
			// the withdrawal is not the last message of the payload
			rcpt, _ := sdk.AccAddressFromBech32(w.pickUser())
			mkSend(big.NewInt(int64(1+w.r.Intn(100))), "umin", rcpt)
		case "fail":
			// a later message fails: the whole payload (including the withdrawal) must leave nothing behind
			rcpt, _ := sdk.AccAddressFromBech32(w.pickUser())
			msgs = append(msgs, &banktypes.MsgSend{FromAddress: signer.String(), ToAddress: rcpt.String(), Amount: sdk.NewCoins(sdk.NewCoin("umin", math.NewIntFromBigInt(new(big.Int).Lsh(big.NewInt(1), 100))))})
			hs.Class = "failmsg"
			hs.Withdraw = nil
		}
	case "nested":
		// re-entrancy: the payload relays the very deposit it travels in (same L1 sequence, same content, no payload)
		o := w.hookOuter
		msgs = append(msgs, &opchildtypes.MsgFinalizeTokenDeposit{Sender: signer.String(), From: o.From, To: o.To, Amount: o.Amount, Sequence: o.Seq, Height: o.Height, BaseDenom: o.BaseDenom})
	case "unrouted":
		// a message type no handler is registered for on the L2
		msgs = append(msgs, &ophosttypes.MsgRecordBatch{Submitter: signer.String(), BridgeId: 1, BatchBytes: []byte{1}})
	}
	bz, err := node.SignedTx(w.enc, node.L2ChainID, priv, w.m.AcctNum[lbl], hs.Seq, msgs, gas, class == "badsig")
	if err != nil {
		panic(err)
	}
	w.m.hooks[hex.EncodeToString(bz)] = hs
	return bz
}

// deposit returns the (fixed) content L1 emitted for a sequence.
func (w *l2World) deposit(spec *modelL2, seq uint64) *l1Deposit {
	if d, ok := w.deps[seq]; ok {
		return d
	}
	base := w.bases[w.r.Intn(len(w.bases))]
	d := &l1Deposit{Seq: seq, From: fmt.Sprintf("l1sender%d", w.r.Intn(4)), BaseDenom: base, Height: 1 + uint64(w.r.Intn(1000))}
	to := w.pickUser()
	if w.r.Chance(w.p.BadRcpt, 100) {
		to = []string{"0x1", "cosmos1notbech32", "", strings.Repeat("z", 300), authtypes.NewModuleAddress(opchildtypes.ModuleName).String(),
			authtypes.NewModuleAddress(authtypes.FeeCollectorName).String(), sdk.AccAddress(make([]byte, 20)).String(), "init1qqqsyqcyq5rqwzqfpg9scrgwpugpzysnjscnev",
			authtypes.NewModuleAddress(node.LazyModule).String(), authtypes.NewModuleAddress(node.LazyModule).String()}[w.r.Intn(10)]
	}
	if w.r.Chance(1, 6) {
		to = sdk.AccAddress(node.AddrN("fresh", w.r.Intn(1000))).String()
	}
	d.To = to
	var amt math.Int
	switch w.r.Weighted([]int{12, 2, 1, 1, 1}) {
	case 0:
		amt = math.NewInt(int64(1 + w.r.Intn(1_000_000)))
	case 1:
		amt = math.ZeroInt()
	case 2:
		amt = math.NewIntFromUint64(1 << 63)
	case 3:
		amt = math.NewIntFromUint64(^uint64(0))
	default:
		amt = math.NewIntFromBigInt(new(big.Int).Lsh(big.NewInt(1), 64))
		if w.avoidKnown && core.Known.Listed(w.p.Prop, "amount-over-64-bits") {
			amt = math.NewInt(7)
		}
	}
	d.Amount = sdk.Coin{Denom: w.l2denom(base), Amount: amt}
	if w.r.Chance(w.p.Hooks, 100) {
		w.hookOuter = d
		d.Data = w.makeHook(spec, to, d.Amount)
		w.hookOuter = nil
	}
	w.deps[seq] = d
	return d
}

func (w *l2World) depositMsg(spec *modelL2, seq uint64, sender string) *opchildtypes.MsgFinalizeTokenDeposit {
	d := w.deposit(spec, seq)
	return &opchildtypes.MsgFinalizeTokenDeposit{Sender: sender, From: d.From, To: d.To, Amount: d.Amount, Sequence: d.Seq, Height: d.Height, BaseDenom: d.BaseDenom, Data: d.Data}
}

func (w *l2World) genPubKeyAny(label string) *codectypes.Any {
	a, err := codectypes.NewAnyWithValue(node.ValKey(label).PubKey())
	if err != nil {
		panic(err)
	}
	return a
}

func (w *l2World) genOp(spec *modelL2, bc blockCtx) ([]sdk.Msg, string, string) {
	kinds := []string{"relay", "withdraw", "send", "addval", "rmval", "params", "spend", "bridgeinfo", "exec", "relaybatch"}
	wt := make([]int, len(kinds))
	for i, k := range kinds {
		wt[i] = w.p.W[k]
	}
	k := kinds[w.r.Weighted(wt)]
	one := func(m sdk.Msg) []sdk.Msg { return []sdk.Msg{m} }
	switch k {
	case "relay":
		seq := spec.NextL1Seq
		switch w.r.Weighted([]int{10, 4, 1, 1}) {
		case 1:
			if seq > 1 {
				seq = 1 + uint64(w.r.Intn(int(seq-1)))
			}
		case 2:
			seq++
		case 3:
			seq += 2 + uint64(w.r.Intn(5))
		}
		sender := w.executors[w.r.Intn(len(w.executors))]
		if w.r.Chance(1, 12) {
			sender = w.outsider
		}
		sender = spell(w.r, sender)
		msg := w.depositMsg(spec, seq, sender)
		if w.r.Chance(1, 15) && len(spec.Pairs) > 0 {
			// sloppy executor: names a different base denom for a known L2 denom
			msg.BaseDenom = "uother"
		}
		return one(msg), k, fmt.Sprintf("seq=%d(next=%d) %s to=%s by=%s data=%dB base=%s", seq, spec.NextL1Seq, msg.Amount, short(msg.To), short(sender), len(msg.Data), msg.BaseDenom)
	case "relaybatch":
		n := 2 + w.r.Intn(2)
		seq := spec.NextL1Seq
		if seq > 1 && w.r.Chance(1, 2) {
			seq -= 1 + uint64(w.r.Intn(minInt(2, int(seq-1))))
		}
		sender := w.executors[w.r.Intn(len(w.executors))]
		var msgs []sdk.Msg
		for i := 0; i < n; i++ {
			msgs = append(msgs, w.depositMsg(spec, seq+uint64(i), sender))
		}
		return msgs, k, fmt.Sprintf("seqs=%d..%d(next=%d) by=%s", seq, seq+uint64(n)-1, spec.NextL1Seq, short(sender))
	case "withdraw":
		sender := w.pickUser()
		sa, _ := sdk.AccAddressFromBech32(sender)
		var denom string
		switch w.r.Weighted([]int{8, 1, 1}) {
		case 0:
			denom = w.l2denom(w.bases[w.r.Intn(len(w.bases))])
		case 1:
			denom = "umin"
		default:
			denom = "l2/unknown"
			if w.caseTwin != "" {
				denom = w.caseTwin
			}
		}
		bal := spec.Bal.get(sa, denom)
		var amt math.Int
		switch w.r.Weighted([]int{8, 2, 2, 1}) {
		case 0:
			if bal.Sign() > 0 && bal.IsUint64() {
				amt = math.NewIntFromUint64(1 + w.r.Uint64n(bal.Uint64()))
			} else if bal.Sign() > 0 {
				amt = math.NewIntFromBigInt(new(big.Int).Rsh(bal, 1))
			} else {
				amt = math.NewInt(1)
			}
		case 1:
			amt = math.NewIntFromBigInt(bal)
			if !amt.IsPositive() {
				amt = math.NewInt(1)
			}
		case 2:
			amt = math.NewIntFromBigInt(new(big.Int).Add(bal, big.NewInt(1)))
		default:
			amt = math.NewIntFromBigInt(bal)
			if !amt.IsPositive() {
				amt = math.NewInt(1)
			}
		}
		if !amt.IsUint64() && w.avoidKnown && core.Known.Listed(w.p.Prop, "amount-over-64-bits") {
			amt = math.NewIntFromUint64(^uint64(0))
		}
		to := fmt.Sprintf("l1rcpt%d", w.r.Intn(4))
		return one(&opchildtypes.MsgInitiateTokenWithdrawal{Sender: sender, To: to, Amount: sdk.Coin{Denom: denom, Amount: amt}}), k,
			fmt.Sprintf("%s%s by=%s (bal=%s)", amt, short(denom), short(sender), bal)
	case "send":
		from := w.pickUser()
		fa, _ := sdk.AccAddressFromBech32(from)
		denom := "umin"
		if w.r.Chance(1, 2) {
			denom = w.l2denom(w.bases[w.r.Intn(len(w.bases))])
		}
		bal := spec.Bal.get(fa, denom)
		amt := math.NewInt(1)
		if bal.Sign() > 0 && bal.IsUint64() {
			amt = math.NewIntFromUint64(1 + w.r.Uint64n(bal.Uint64()))
		}
		if w.r.Chance(1, 10) {
			amt = math.NewIntFromBigInt(new(big.Int).Add(bal, big.NewInt(1)))
		}
		to := w.pickUser()
		return one(&banktypes.MsgSend{FromAddress: from, ToAddress: to, Amount: sdk.NewCoins(sdk.NewCoin(denom, amt))}), k, fmt.Sprintf("%s%s %s->%s", amt, short(denom), short(from), short(to))
	case "addval":
		lbl := w.valPool[w.r.Intn(len(w.valPool))]
		keyLbl := lbl
		if w.r.Chance(1, 6) {
			keyLbl = w.valPool[w.r.Intn(len(w.valPool))] // same key under another operator
		}
		auth := spec.Authority
		if w.r.Chance(1, 10) {
			auth = w.pickUser()
		}
		msg := &opchildtypes.MsgAddValidator{Moniker: "mon-" + lbl, Authority: auth, ValidatorAddress: valOperator(lbl).String(), Pubkey: w.genPubKeyAny(keyLbl)}
		return w.maybeWrap(spec, msg, k, fmt.Sprintf("op=%s key=%s by=%s", lbl, keyLbl, short(auth)))
	case "rmval":
		lbl := w.valPool[w.r.Intn(len(w.valPool))]
		ops := spec.valOps()
		if len(ops) > 0 && w.r.Chance(3, 4) {
			// prefer an existing validator, but never the last bonded one (an empty set is outside the property's scope)
			cand := ops[w.r.Intn(len(ops))]
			for _, l := range w.valPool {
				if valOperator(l).String() == cand {
					lbl = l
				}
			}
		}
		if v := spec.Vals[valOperator(lbl).String()]; v != nil && v.Power > 0 && spec.bonded() <= 1 {
			return w.genOp(spec, bc)
		}
		auth := spec.Authority
		if w.r.Chance(1, 10) {
			auth = w.pickUser()
		}
		msg := &opchildtypes.MsgRemoveValidator{Authority: auth, ValidatorAddress: valOperator(lbl).String()}
		return w.maybeWrap(spec, msg, k, fmt.Sprintf("op=%s by=%s", lbl, short(auth)))
	case "params":
		np := spec.Params
		np.BridgeExecutors = append([]string{}, spec.Params.BridgeExecutors...)
		switch w.r.Intn(6) {
		case 0:
			np.MaxValidators = uint32(1 + w.r.Intn(8))
		case 1:
			// retention is never switched from k>0 to 0 (the SDK-inherited pruning loop then
			// starts at a height that has no record yet and stops at once; out of scope)
			if np.HistoricalEntries == 0 || w.p.Prop == "C18" {
				// (C18 does not judge retention: there the switch to 0, which leaves records no
				// later block prunes, is part of the histories replicas must agree on)
				np.HistoricalEntries = uint32(w.r.Intn(6))
			} else {
				np.HistoricalEntries = uint32(1 + w.r.Intn(5))
			}
		case 2:
			// rotate the executor list
			n := w.r.Intn(4) // an empty list is legal: nobody is executor then
			np.BridgeExecutors = nil
			for i := 0; i < n; i++ {
				np.BridgeExecutors = append(np.BridgeExecutors, spell(w.r, node.AddrN("executor", w.r.Intn(4)).String()))
			}
			if w.r.Chance(1, 3) {
				// an executor who is also an ordinary (key-holding) user of the L2
				np.BridgeExecutors = append(np.BridgeExecutors, node.KeyAddr(w.keyed[w.r.Intn(len(w.keyed))]).String())
			}
		case 3:
			np.Admin = []string{w.admin, w.ustr[0], w.outsider, node.KeyAddr(w.keyed[0]).String()}[w.r.Intn(4)]
		case 4:
			np.HookMaxGas = []uint64{0, 60_000, 1_000_000, 3_000_000}[w.r.Intn(4)]
			if np.HookMaxGas > 0 {
				np.HookMaxGas += uint64(w.r.Intn(5000))
			}
		case 5:
			np.MaxValidators = 0 // invalid
		}
		auth := spec.Authority
		if w.r.Chance(1, 8) {
			auth = w.pickUser()
		}
		msg := &opchildtypes.MsgUpdateParams{Authority: auth, Params: &np}
		return w.maybeWrap(spec, msg, k, fmt.Sprintf("max=%d hist=%d execs=%d admin=%s hookgas=%d by=%s", np.MaxValidators, np.HistoricalEntries, len(np.BridgeExecutors), short(np.Admin), np.HookMaxGas, short(auth)))
	case "spend":
		auth := spec.Authority
		if w.r.Chance(1, 6) {
			auth = w.pickUser()
		}
		fc := authtypes.NewModuleAddress(authtypes.FeeCollectorName)
		amt := spec.Bal.get(fc, "umin")
		a := math.NewInt(int64(w.r.Intn(5)))
		if amt.Sign() > 0 && amt.IsUint64() {
			a = math.NewIntFromUint64(w.r.Uint64n(amt.Uint64() + 2))
		}
		msg := &opchildtypes.MsgSpendFeePool{Authority: auth, Recipient: w.pickUser(), Amount: sdk.NewCoins(sdk.NewCoin("umin", a))}
		return w.maybeWrap(spec, msg, k, fmt.Sprintf("%sumin by=%s", a, short(auth)))
	case "bridgeinfo":
		sender := w.executors[w.r.Intn(len(w.executors))]
		if w.r.Chance(1, 5) {
			sender = w.pickUser()
		} else if w.r.Chance(1, 8) {
			sender = spec.Params.Admin // the admin is not an executor unless listed
		}
		bi := w.bridgeInfo("")
		if spec.Bridge != nil {
			bi = *spec.Bridge
		}
		tag := "same"
		switch w.r.Intn(8) {
		case 7:
			bi.L1ClientId = ""
			tag = "clear-client-id"
		case 0:
			bi.BridgeId++
			tag = "other-bridge-id"
		case 1:
			bi.BridgeAddr = w.pickUser()
			if w.foreignAddr {
				bi.BridgeAddr = "init1zg69v7ys40x77y352eufp27daufrg4nc3xg4pz" // another string the L2 cannot decode either
			}
			tag = "other-bridge-addr"
		case 2:
			bi.L1ChainId = "other-l1"
			tag = "other-l1-chain"
		case 3:
			bi.L1ClientId = []string{"07-tendermint-0", "07-tendermint-1"}[w.r.Intn(2)]
			tag = "client-id=" + bi.L1ClientId
		case 4:
			bi.BridgeConfig.OracleEnabled = !bi.BridgeConfig.OracleEnabled
			tag = "toggle-oracle"
		case 5:
			bi.BridgeConfig.Proposer = w.pickUser()
			tag = "new-proposer"
		}
		return one(&opchildtypes.MsgSetBridgeInfo{Sender: sender, BridgeInfo: bi}), k, fmt.Sprintf("%s by=%s", tag, short(sender))
	default: // exec: a batch of authority messages with possibly a bad tail
		n := 1 + w.r.Intn(3)
		var inner []sdk.Msg
		var tags []string
		sc := spec.clone()
		for i := 0; i < n; i++ {
			var im []sdk.Msg
			var ik, id string
			for {
				// draw inner messages unwrapped
				im, ik, id = w.genInner(sc, bc)
				if len(im) == 1 {
					break
				}
			}
			inner = append(inner, im[0])
			tags = append(tags, ik+"{"+id+"}")
			if so := sc.step(im[0], bc, false); so.P.Kind != mustFail && so.OnSuccess != nil {
				so.OnSuccess(&txRes{OK: true})
			}
		}
		if modBal := sc.Bal.get(authtypes.NewModuleAddress(opchildtypes.ModuleName), "umin"); modBal.Sign() > 0 && w.r.Chance(1, 3) {
			// the authority spends from its own (pre-funded) account, and the same batch moves somebody else's coins
			to, _ := sdk.AccAddressFromBech32(w.pickUser())
			victim := w.pickUser()
			inner = []sdk.Msg{
				&banktypes.MsgSend{FromAddress: spec.Authority, ToAddress: to.String(), Amount: sdk.NewCoins(sdk.NewCoin("umin", math.NewInt(1)))},
				&banktypes.MsgSend{FromAddress: victim, ToAddress: spec.Params.Admin, Amount: sdk.NewCoins(sdk.NewCoin("umin", math.NewInt(int64(1+w.r.Intn(1000)))))},
			}
			tags = []string{"send{1umin authority->" + short(to.String()) + "}", "send{" + short(victim) + "->admin FOREIGN-SIGNER}"}
		} else if w.r.Chance(1, 5) {
			// a second message of the first one's type, declared to be signed by somebody else than the authority
			if s0, ok := innerSigner(inner[0]); ok && s0 == spec.Authority {
				for try := 0; try < 12; try++ {
					im, ik, id := w.genInner(sc, bc)
					if len(im) == 1 && sdk.MsgTypeURL(im[0]) == sdk.MsgTypeURL(inner[0]) && setInnerSigner(im[0], w.pickUser()) {
						inner = append(inner, im[0])
						tags = append(tags, ik+"{"+id+" FOREIGN-SIGNER}")
						break
					}
				}
			}
		}
		sender := spec.Params.Admin
		if w.r.Chance(1, 6) {
			sender = w.pickUser()
		}
		msg, err := opchildtypes.NewMsgExecuteMessages(sender, inner)
		if err != nil {
			panic(err)
		}
		return one(msg), "exec", fmt.Sprintf("by=%s [%s]", short(sender), strings.Join(tags, "; "))
	}
}

// genInner draws a message suitable for MsgExecuteMessages (mostly authority
// messages, sometimes one signed by somebody else).
func (w *l2World) genInner(spec *modelL2, bc blockCtx) ([]sdk.Msg, string, string) {
	save := w.p.W
	w.p.W = map[string]int{"addval": 5, "rmval": 4, "params": 3, "spend": 2, "send": 1, "withdraw": 1}
	defer func() { w.p.W = save }()
	wrapSave := w.noWrap
	w.noWrap = true
	defer func() { w.noWrap = wrapSave }()
	return w.genOp(spec, bc)
}

// maybeWrap sends an authority message either directly (the simulator's
// authority actor) or inside MsgExecuteMessages signed by the admin.
func (w *l2World) maybeWrap(spec *modelL2, msg sdk.Msg, kind, desc string) ([]sdk.Msg, string, string) {
	if w.noWrap || w.r.Chance(1, 2) {
		return []sdk.Msg{msg}, kind, desc
	}
	sender := spec.Params.Admin
	if w.r.Chance(1, 10) {
		sender = w.pickUser()
	}
	em, err := opchildtypes.NewMsgExecuteMessages(sender, []sdk.Msg{msg})
	if err != nil {
		panic(err)
	}
	return []sdk.Msg{em}, kind, desc + " via-exec-by=" + short(sender)
}

func (w *l2World) restart(phase string) {
	w.r.Fault("crash." + phase)
	w.r.Logf("CRASH L2 node (%s) and restart from durable state (start-up plans re-registered)", phase)
	w.n = node.NewL2(w.db, nil, w.opts, w.plans)
}

// splitByMsg groups a tx's events by the msg_index attribute.
func splitByMsg(evs []abci.Event, n int) [][]abci.Event {
	out := make([][]abci.Event, n)
	for _, e := range evs {
		idx := -1
		for _, a := range e.Attributes {
			if a.Key == "msg_index" {
				fmt.Sscanf(a.Value, "%d", &idx)
			}
		}
		if idx >= 0 && idx < n {
			out[idx] = append(out[idx], e)
		}
	}
	return out
}

type l2Pending struct {
	Msgs   []sdk.Msg
	Bytes  []byte
	Kind   string
	Desc   string
	LowGas bool
	Fault  string
	// MustFail: the transaction carries something its ante handler has to refuse (a light-client update no
	// honest relayer could produce); it must fail as a whole and the model does not step
	MustFail string
}

func (w *l2World) runBlock() *core.Violation {
	r := w.r
	w.planClass = ""
	if w.p.Reimport > 0 && r.Chance(w.p.Reimport, 100) && !w.planPending() {
		if v := w.reimport(); v != nil {
			return v
		}
	}
	var T time.Time
	switch r.Weighted([]int{6, 1, 2, 1}) {
	case 0:
		T = w.now.Add(time.Duration(1+r.Intn(5)) * time.Second)
	case 1:
		T = w.now
	case 2:
		T = w.now.Add(time.Duration(1 + r.Intn(999_999_999)))
	default:
		T = w.now.Add(time.Duration(1+r.Intn(24)) * time.Hour)
	}
	bc := blockCtx{Height: w.n.Height() + 1, Time: T}
	if w.p.Plans && r.Chance(1, 6) {
		if v := w.registerPlan(bc); v != nil {
			return v
		}
	}
	w.histEntriesAtBegin = w.m.Params.HistoricalEntries
	// retention is applied at the start of every block: records at or below H-entries go, H is added
	for h := range w.histWritten {
		if h <= bc.Height-int64(w.histEntriesAtBegin) {
			delete(w.histWritten, h)
		}
	}
	if w.histEntriesAtBegin > 0 {
		w.histWritten[bc.Height] = true
	}
	spec := w.m.clone()
	ntx := 1 + r.Intn(w.p.MaxTx)
	if r.Chance(1, 10) {
		ntx = 0
	}
	var txs []l2Pending
	for i := 0; i < ntx; i++ {
		msgs, kind, desc := w.genOp(spec, bc)
		pt := l2Pending{Msgs: msgs, Kind: kind, Desc: desc}
		opts := node.TxOpts{}
		if w.p.GasAbort > 0 && r.Chance(w.p.GasAbort, 100) {
			opts.Gas = uint64(5_000 + r.Intn(150_000))
			pt.LowGas = true
		}
		if w.p.DepFault > 0 && r.Chance(w.p.DepFault, 100) {
			site := []string{"bank", "bank", "bank", "acct"}[r.Intn(4)]
			pt.Fault = fmt.Sprintf("fault:%s:%d:%s", site, r.Intn(6), []string{"err", "panic"}[r.Intn(2)])
			opts.Memo = pt.Fault
		}
		bz, err := node.BuildTx(w.enc, msgs, opts)
		if err != nil {
			panic(fmt.Sprintf("BuildTx: %v", err))
		}
		pt.Bytes = bz
		txs = append(txs, pt)
		if !pt.LowGas && pt.Fault == "" {
			w.applyTx(spec, msgs, bc, nil, false)
		}
	}
	crash := ""
	if w.p.Crash > 0 && r.Chance(w.p.Crash, 100) {
		crash = []string{"before-finalize", "after-finalize-before-commit", "after-commit", "aborted-optimistic-execution"}[r.Intn(4)]
	}
	return w.execBlock(bc, txs, crash)
}

// execBlock executes a prepared block, runs the lock-step model over its
// results and compares the complete state.
func (w *l2World) execBlock(bc blockCtx, txs []l2Pending, crash string) *core.Violation {
	r := w.r
	T := bc.Time
	w.lastRes = nil
	raw := make([][]byte, len(txs))
	for i := range txs {
		raw[i] = txs[i].Bytes
	}
	r.Step("block", "L2 h=%d t=+%s txs=%d crash=%q", bc.Height, T.Sub(simEpoch), len(txs), crash)
	if crash == "before-finalize" {
		w.restart(crash)
	}
	w.sideTraffic("before-finalize", raw)
	w.n.Fault.ResetLog()
	host := w.pendingHost
	w.pendingHost = nil
	var res *abci.ResponseFinalizeBlock
	var err error
	if crash == "aborted-optimistic-execution" {
		r.Fault("aborted-optimistic-execution")
		r.Logf("block %d is first executed optimistically, that execution is aborted and discarded, then it is executed again", bc.Height)
		res, err = w.n.FinalizeAfterAbortedOE(T, raw, host, w.altProposal(raw))
	} else {
		res, err = w.n.Finalize(T, raw, host)
	}
	if err != nil {
		return w.blockError(bc, err)
	}
	// with an aborted first execution the per-tx logs hold several passes; the last one counts
	if n := len(w.n.Fault.TxFired); n > len(txs) {
		w.n.Fault.TxFired = w.n.Fault.TxFired[n-len(txs):]
		w.n.Fault.TxCalls = w.n.Fault.TxCalls[n-len(txs):]
	}
	fired := append([]bool{}, w.n.Fault.TxFired...)
	if crash == "after-finalize-before-commit" {
		w.restart(crash)
		w.n.Fault.ResetLog()
		res2, err := w.n.Finalize(T, raw, host)
		if err != nil {
			return w.blockError(bc, err)
		}
		if d := sameResults(res, res2); d != "" {
			return w.fail(mismatch{"crash.replay-diverged", "block-replay-diverged", []string{w.p.Prop, "C18"}, "replaying the uncommitted block after a crash gave a different result: " + d})
		}
		if d := sameUpdates(res.ValidatorUpdates, res2.ValidatorUpdates); d != "" {
			return w.fail(mismatch{"crash.replay-diverged", "validator-updates-diverged-on-replay", []string{"C13", "C18", "C14"}, d})
		}
		res = res2
	}
	w.sideTraffic("before-commit", raw)
	w.n.Commit()
	w.r.Witness(w.n.App.LastCommitID().Hash)
	if crash == "after-commit" {
		w.restart(crash)
	}
	w.sideTraffic("after-commit", raw)
	for _, t := range raw {
		if len(w.recent) < 24 {
			w.recent = append(w.recent, t)
		} else {
			w.recent[r.Intn(24)] = t
		}
	}
	if len(w.replicas) > 0 {
		if v := w.runReplicas(bc, raw, host, res); v != nil {
			return v
		}
	}
	r.SimNS += int64(T.Sub(w.now))
	w.now = T
	r.Stat("blocks", 1)
	r.Stat("txs", len(txs))

	// bonded set at the start of this block (for the historical record)
	start := map[string]int64{}
	for op, pw := range w.m.Last {
		if v := w.m.Vals[op]; v != nil {
			start[hex.EncodeToString(v.PubKey)] = pw
		}
	}
	w.hist[bc.Height] = start

	anySuccess := false
	w.lastRes = res
	w.lastFired = fired
	w.lastCalls = append([][]string{}, w.n.Fault.TxCalls...)
	for i, pt := range txs {
		tr := toTxRes(w.enc, res.TxResults[i])
		ff := i < len(fired) && fired[i]
		if ff {
			p := strings.Split(pt.Fault, ":")
			r.Fault("dependency-fault." + p[1] + "." + p[3])
		}
		oog := !tr.OK && strings.Contains(tr.Log, "out of gas")
		if oog {
			r.Fault("out-of-gas-abort")
		}
		status := "ok"
		if !tr.OK {
			status = "FAIL(" + firstLine(tr.Log) + ")"
		}
		r.Step("tx."+pt.Kind, "%s %s%s -> %s", pt.Desc, pt.Fault, lowGasTag(pt.LowGas), status)
		if i < len(w.feeBook) && !w.feeBook[i].Fee.IsZero() {
			// the fee is deducted whenever the ante handler passed, whatever happens to the messages
			for _, a := range node.EventAttrs(tr.Events, "tx") {
				if _, ok := a["fee"]; ok {
					fc := authtypes.NewModuleAddress(authtypes.FeeCollectorName)
					for _, cn := range w.feeBook[i].Fee {
						w.m.Bal.add(w.feeBook[i].Payer, cn.Denom, new(big.Int).Neg(cn.Amount.BigInt()))
						w.m.Bal.add(fc, cn.Denom, cn.Amount.BigInt())
					}
					anySuccess = true
					break
				}
			}
		}
		if pt.MustFail != "" {
			if tr.OK {
				return w.fail(mismatch{"hostset.hostile-accepted", "hostile-client-update-accepted", []string{"C15"}, "a transaction carrying " + pt.MustFail + " succeeded"})
			}
			w.r.Probe("hostset.hostile-refused")
			continue
		}
		if oog {
			continue
		}
		if v := w.applyTx(w.m, pt.Msgs, bc, &txOutcome{res: tr, fault: ff, kind: pt.Kind, desc: pt.Desc, lowGas: pt.LowGas}, true); v != nil {
			return v
		}
		if tr.OK {
			anySuccess = true
			w.succ[pt.Kind]++
		}
	}
	w.feeBook = nil
	return w.endOfBlock(bc, res, anySuccess)
}

// classifyPlan names the input class of a plan against the current model state.
func (w *l2World) classifyPlan(plan *node.PlanReg) string {
	key := node.ValKey(w.planKey[plan.Height]).PubKey().Bytes()
	cls := ""
	if v, known := w.m.Vals[w.planOp[plan.Height]]; known {
		if bytes.Equal(v.PubKey, key) {
			return "same-operator-same-key" // the plan keeps an existing validator as the sequencer
		}
		cls = "known-operator"
	}
	if v := w.m.valByKey(key); v != nil && v.Operator != w.planOp[plan.Height] {
		if cls != "" {
			cls += "+"
		}
		cls += "used-key"
	}
	if cls == "" {
		cls = "fresh"
	}
	return cls
}

func (w *l2World) blockError(bc blockCtx, err error) *core.Violation {
	key := "finalize-block-error"
	if pl, ok := w.planAt[uint64(bc.Height)]; ok {
		key = "plan/" + w.classifyPlan(pl) + "/block-processing-error"
	}
	return w.fail(mismatch{"block.processing-failed", key, []string{"C13", "C14", w.p.Prop}, fmt.Sprintf("block %d processing failed: %v", bc.Height, err)})
}

func sameUpdates(a, b []abci.ValidatorUpdate) string {
	if len(a) != len(b) {
		return fmt.Sprintf("validator update count differs on replay: %d vs %d", len(a), len(b))
	}
	for i := range a {
		if !bytes.Equal(pkBytes(a[i].PubKey), pkBytes(b[i].PubKey)) || a[i].Power != b[i].Power {
			return fmt.Sprintf("validator update %d differs on replay", i)
		}
	}
	return ""
}

type feeEntry struct {
	Payer []byte
	Fee   sdk.Coins
}

type txOutcome struct {
	res    *txRes
	fault  bool
	kind   string
	desc   string
	lowGas bool
}

// applyTx runs a (possibly multi-message) transaction through the model.  With
// out == nil it is a speculative application used by the generator.
func (w *l2World) applyTx(m *modelL2, msgs []sdk.Msg, bc blockCtx, out *txOutcome, real bool) *core.Violation {
	// predict on a scratch copy: the tx is atomic
	scratch := m.clone()
	var p pred
	for i, msg := range msgs {
		so := scratch.step(msg, bc, out != nil && out.fault)
		if so.P.Kind == mustFail {
			p.Kind = mustFail
			p.Reasons = append(p.Reasons, so.P.Reasons...)
			_ = i
			break
		}
		if so.P.Kind == either {
			p.Kind = either
		}
		if so.OnSuccess != nil {
			so.OnSuccess(&txRes{OK: true, Events: fakeDepositEvents(msg)})
		}
	}
	if out == nil {
		if p.Kind != mustFail {
			for _, msg := range msgs {
				so := m.step(msg, bc, false)
				if so.OnSuccess != nil {
					so.OnSuccess(&txRes{OK: true, Events: fakeDepositEvents(msg)})
				}
			}
		}
		return nil
	}
	tr := out.res
	if out.fault {
		// a fired fault outside a contained region aborts the tx atomically; inside
		// one (deposit mint / send / hook) the handler must still succeed.  Either way
		// the outcome is decided below from what the tx reports.
		if !tr.OK {
			w.r.Probe("fault.aborted-tx")
			if w.isExpectedDeposit(m, msgs) {
				w.r.Probe("fault.deposit-handler-error")
			}
			return nil
		}
		w.r.Probe("fault.contained")
	} else {
		switch {
		case p.Kind == mustFail && tr.OK:
			var owners []string
			for _, rs := range p.Reasons {
				owners = append(owners, rs.Owners...)
			}
			rs := p.Reasons[0]
			for _, c := range p.Reasons {
				if w.own(c.Owners) {
					rs = c
					break
				}
			}
			return w.fail(mismatch{rs.Inv, rs.Key, owners, fmt.Sprintf("%s {%s} succeeded but must fail (%s)", out.kind, out.desc, rs.Inv)})
		case p.Kind == mustSucceed && !tr.OK && !out.lowGas:
			return w.fail(mismatch{"complete." + out.kind, out.kind + "-rejected", l2Completeness(out.kind), fmt.Sprintf("%s {%s} failed but the model says it must succeed: %s", out.kind, out.desc, firstLine(tr.Log))})
		}
	}
	if !tr.OK {
		if len(p.Reasons) > 0 {
			w.r.Probe("reject." + p.Reasons[0].Inv)
		}
		return nil
	}
	evs := splitByMsg(tr.Events, len(msgs))
	for i, msg := range msgs {
		so := m.step(msg, bc, out.fault)
		sub := &txRes{OK: true, Events: evs[i]}
		if i < len(tr.Resps) && tr.Resps[i] != nil {
			sub.Resps = []proto.Message{tr.Resps[i]}
		}
		if so.OnSuccess != nil {
			for _, mmz := range so.OnSuccess(sub) {
				return w.fail(mmz)
			}
		}
		w.noteDeposit(msg, sub)
	}
	return nil
}

func (w *l2World) isExpectedDeposit(m *modelL2, msgs []sdk.Msg) bool {
	if len(msgs) != 1 {
		return false
	}
	d, ok := msgs[0].(*opchildtypes.MsgFinalizeTokenDeposit)
	return ok && d.Sequence == m.NextL1Seq && m.isExecutor(d.Sender)
}

func (w *l2World) noteDeposit(msg sdk.Msg, sub *txRes) {
	d, ok := msg.(*opchildtypes.MsgFinalizeTokenDeposit)
	if !ok {
		return
	}
	evs := attrsOf(sub, "finalize_token_deposit")
	if len(evs) == 0 {
		w.r.Probe("deposit.noop-replay")
		return
	}
	if evs[0]["success"] == "true" {
		w.r.Probe("deposit.credited")
		if len(d.Data) > 0 {
			w.r.Probe("deposit.hook-succeeded")
		}
	} else {
		w.r.Probe("deposit.refunded")
		if strings.HasPrefix(evs[0]["reason"], "hook failed") {
			w.r.Probe("deposit.refunded-after-hook-failure")
			if strings.Contains(evs[0]["reason"], "out of gas") {
				w.r.Probe("deposit.refunded-after-hook-out-of-gas")
			}
		}
	}
}

// fakeDepositEvents lets the speculative (generator-side) model application
// take the credited branch for deposits.
func fakeDepositEvents(msg sdk.Msg) []abci.Event {
	return nil
}

func l2Completeness(kind string) []string {
	switch kind {
	case "relay", "relaybatch":
		return []string{"C06", "C07", "C08"}
	case "withdraw":
		return []string{"C09", "C08", "C04"}
	case "addval", "rmval":
		return []string{"C13", "C12"}
	case "send":
		return []string{"C09"}
	default:
		return []string{"C12"}
	}
}

// registerPlan is the start-up / upgrade-handler action that registers an
// executor-change plan in keeper memory (and remembers it so that it is
// registered again after every restart, as an application constructor would).
func (w *l2World) registerPlan(bc blockCtx) *core.Violation {
	r := w.r
	if len(w.plans) > 0 && r.Chance(1, 6) {
		// the start-up code runs again (or a second upgrade handler names the same height): the same plan with
		// another executor list, or with another moniker, for a height that is already taken
		p := w.plans[r.Intn(len(w.plans))]
		if int64(p.Height) > w.n.Height() {
			q := p
			if r.Chance(2, 3) {
				q.NextExecutors = []string{node.AddrN("executor", r.Intn(5)).String(), w.outsider}
			} else {
				q.Moniker += "-again"
			}
			before := fmt.Sprintf("%+v", w.n.OK.ExecutorChangePlans[p.Height])
			errReg := w.n.OK.RegisterExecutorChangePlan(q.ProposalID, q.Height, q.NextValidator, q.Moniker, q.ConsPubKeyJSON, q.Info, q.NextExecutors)
			r.Step("plan.register", "height=%d re-registration with other content -> err=%v", q.Height, errReg)
			if errReg == nil {
				return w.fail(mismatch{"plan.malformed-accepted", "malformed-plan-accepted:duplicate-height", []string{"C14"}, "a second registration for a height that is already taken was accepted"})
			}
			if after := fmt.Sprintf("%+v", w.n.OK.ExecutorChangePlans[p.Height]); after != before {
				return w.fail(mismatch{"plan.malformed-side-effect", "malformed-plan-side-effect", []string{"C14"}, "rejected plan registration changed the stored plan"})
			}
			r.Probe("plan.malformed-rejected")
			return nil
		}
	}
	h := uint64(bc.Height) + uint64(r.Intn(5))
	opLbl := fmt.Sprintf("planop%d", r.Intn(3))
	keyLbl := fmt.Sprintf("plankey%d", r.Intn(3))
	avoidOp := (w.avoidKnown || w.p.Prop != "C14") && (core.Known.Listed("C14", "plan/known-operator") || core.Known.Listed("C14", "plan/known-operator+used-key"))
	avoidKey := (w.avoidKnown || w.p.Prop != "C14") && (core.Known.Listed("C14", "plan/used-key") || core.Known.Listed("C14", "plan/known-operator+used-key"))
	if avoidOp {
		opLbl = fmt.Sprintf("planop-u%d", len(w.plans))
	}
	if avoidKey {
		keyLbl = fmt.Sprintf("plankey-u%d", len(w.plans))
	}
	tag := "fresh-operator,fresh-key"
	ops := w.m.valOps()
	kindSel := r.Weighted([]int{6, 2, 2, 2})
	if kindSel == 3 && len(ops) > 0 {
		// keep an existing validator (same operator, same key) as the only sequencer
		v := w.m.Vals[ops[r.Intn(len(ops))]]
		for _, l := range w.valPool {
			if valOperator(l).String() == v.Operator && bytes.Equal(node.ValKey(l).PubKey().Bytes(), v.PubKey) {
				opLbl, keyLbl = l, l
				tag = "same-operator,same-key"
			}
		}
	}
	if kindSel == 1 && len(ops) > 0 && !avoidOp {
		// reuse a known operator address (with a new key)
		for _, l := range w.valPool {
			if valOperator(l).String() == ops[r.Intn(len(ops))] {
				opLbl = l
				tag = "known-operator,fresh-key"
			}
		}
	}
	if kindSel == 2 && len(ops) > 0 && !avoidKey {
		// reuse an already used consensus key (under a new operator)
		v := w.m.Vals[ops[r.Intn(len(ops))]]
		for _, l := range w.valPool {
			if bytes.Equal(node.ValKey(l).PubKey().Bytes(), v.PubKey) {
				keyLbl = l
				tag = "fresh-operator,used-key"
			}
		}
	}
	nexec := r.Intn(4) // a plan may name no executors at all: nobody is executor afterwards
	if w.l1Rcpts != nil && nexec == 0 {
		nexec = 1 // (not in a two-chain world, whose relayers must be able to drain the bridge at the end)
	}
	var execs []string
	for i := 0; i < nexec; i++ {
		execs = append(execs, spell(r, node.AddrN("executor", r.Intn(5)).String()))
	}
	pkJSON, err := w.enc.Codec.MarshalInterfaceJSON(node.ValKey(keyLbl).PubKey())
	if err != nil {
		panic(err)
	}
	opStr := valOperator(opLbl).String()
	if strings.HasPrefix(opLbl, "planop") {
		opStr = sdk.ValAddress(node.Addr("valoper/" + opLbl)).String()
	}
	pid := 1 + uint64(r.Intn(100))
	if len(w.plans) > 0 && r.Chance(1, 6) {
		pid = w.plans[r.Intn(len(w.plans))].ProposalID // one L1 proposal that schedules a change at several heights
	}
	reg := node.PlanReg{ProposalID: pid, Height: h, NextValidator: opStr, Moniker: "plan-" + opLbl, ConsPubKeyJSON: string(pkJSON), Info: "sim", NextExecutors: execs}
	bad := ""
	switch r.Weighted([]int{10, 1, 1, 1, 1, 1}) {
	case 1:
		reg.ProposalID, bad = 0, "zero-proposal-id"
	case 2:
		reg.Height, bad = 0, "zero-height"
	case 3:
		reg.ConsPubKeyJSON, bad = `{"@type":"/cosmos.crypto.ed25519.PubKey","key":"!!"}`, "undecodable-key"
	case 4:
		reg.NextValidator, bad = "notavaloper", "bad-validator-address"
	case 5:
		reg.NextExecutors, bad = append(execs, "notanaddress"), "bad-executor-address"
	}
	if _, dup := w.planAt[reg.Height]; dup && bad == "" {
		bad = "duplicate-height"
	}
	// the validator cap: with every existing validator still stored at the plan height, the plan's validator must fit
	before := len(w.n.OK.ExecutorChangePlans)
	errReg := w.n.OK.RegisterExecutorChangePlan(reg.ProposalID, reg.Height, reg.NextValidator, reg.Moniker, reg.ConsPubKeyJSON, reg.Info, reg.NextExecutors)
	after := len(w.n.OK.ExecutorChangePlans)
	r.Step("plan.register", "height=%d op=%s key=%s execs=%d (%s) malformed=%q -> err=%v", reg.Height, opLbl, keyLbl, len(execs), tag, bad, errReg)
	if bad != "" {
		if errReg == nil {
			return w.fail(mismatch{"plan.malformed-accepted", "malformed-plan-accepted:" + bad, []string{"C14"}, "registration accepted a malformed plan: " + bad})
		}
		if after != before {
			return w.fail(mismatch{"plan.malformed-side-effect", "malformed-plan-side-effect", []string{"C14"}, "rejected plan registration changed the plan table"})
		}
		r.Probe("plan.malformed-rejected")
		return nil
	}
	if errReg != nil {
		return w.fail(mismatch{"plan.valid-rejected", "valid-plan-rejected", []string{"C14"}, "registration rejected a well-formed plan: " + errReg.Error()})
	}
	w.plans = append(w.plans, reg)
	rc := reg
	w.planAt[reg.Height] = &rc
	w.planKey[reg.Height] = keyLbl
	w.planOp[reg.Height] = opStr
	r.Probe("plan.registered." + tag)
	return nil
}

func (w *l2World) applyPlanToModel(p *node.PlanReg) {
	for _, v := range w.m.Vals {
		v.Power = 0
	}
	opStr := w.planOp[p.Height]
	op, _ := sdk.ValAddressFromBech32(opStr)
	w.m.Vals[opStr] = &mVal{Operator: opStr, OpBytes: op, PubKey: node.ValKey(w.planKey[p.Height]).PubKey().Bytes(), Power: 1, Moniker: p.Moniker}
	w.m.Params.BridgeExecutors = append([]string{}, p.NextExecutors...)
	w.planExecs = fmt.Sprint(p.NextExecutors)
}

// sideTraffic is what a serving node meets between the consensus calls: clients
// simulate transactions for gas estimation and broadcast them into the mempool.  Both
// execute real handler code on a branch of the last committed state that is thrown
// away, so nothing of it may be visible in any later result (only keeper memory could
// carry it over).  Transactions are taken from this block and from recent blocks.
func (w *l2World) sideTraffic(point string, cur [][]byte) {
	if w.sidePct == 0 || !w.r.Chance(w.sidePct, 100) {
		return
	}
	for k := 1 + w.r.Intn(3); k > 0; k-- {
		var t []byte
		switch {
		case len(cur) > 0 && (len(w.recent) == 0 || w.r.Chance(1, 2)):
			t = cur[w.r.Intn(len(cur))]
		case len(w.recent) > 0:
			t = w.recent[w.r.Intn(len(w.recent))]
		default:
			return
		}
		if w.r.Chance(1, 4) {
			w.n.SideCheckTx(t)
			w.r.Fault("discarded-execution.checktx." + point)
		} else {
			w.n.SideSimulate(t)
			w.r.Fault("discarded-execution.simulate." + point)
		}
	}
}

// altProposal chooses the transaction list of the aborted proposal: the same list, or
// a different proposal for the same height (some transactions missing, other recent
// ones included, another order).
func (w *l2World) altProposal(raw [][]byte) [][]byte {
	if w.r.Chance(1, 2) {
		return nil
	}
	alt := [][]byte{}
	for _, t := range raw {
		if !w.r.Chance(1, 4) {
			alt = append(alt, t)
		}
	}
	for k := w.r.Intn(3); k > 0 && len(w.recent) > 0; k-- {
		alt = append(alt, w.recent[w.r.Intn(len(w.recent))])
	}
	for i := len(alt) - 1; i > 0; i-- {
		if w.r.Chance(1, 3) {
			j := w.r.Intn(i + 1)
			alt[i], alt[j] = alt[j], alt[i]
		}
	}
	w.r.Fault("aborted-optimistic-execution.different-proposal")
	return alt
}

// planPending: an executor change plan is registered for a height not yet executed (the
// restart from exported genesis skips one height without running its end blocker).
func (w *l2World) planPending() bool {
	for _, p := range w.plans {
		if int64(p.Height) > w.n.Height() {
			return true
		}
	}
	return false
}

// setInnerSigner overwrites the declared signer of an authority message.
func setInnerSigner(msg sdk.Msg, signer string) bool {
	switch x := msg.(type) {
	case *opchildtypes.MsgAddValidator:
		x.Authority = signer
	case *opchildtypes.MsgRemoveValidator:
		x.Authority = signer
	case *opchildtypes.MsgUpdateParams:
		x.Authority = signer
	case *opchildtypes.MsgSpendFeePool:
		x.Authority = signer
	default:
		return false
	}
	return true
}

// spell returns the address as clients write it (lower case) or, now and then, in the other legal bech32
// spelling (all upper case): the same account, another string.
func spell(r *core.Run, addr string) string {
	if r.Chance(1, 10) {
		return strings.ToUpper(addr)
	}
	return addr
}
