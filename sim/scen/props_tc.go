package scen

import (
	"time"

	"opsim/core"
)

func init() {
	comp := map[string]string{}
	for k, v := range l1Components {
		if k == "L2 + executor" {
			continue
		}
		comp["L1: "+k] = v
	}
	for k, v := range l2Components {
		if k == "L1 + executor" {
			continue
		}
		comp["L2: "+k] = v
	}
	comp["executors / proposer / challenger / claimers / users"] = "stub: simulated actors that act only on parsed events and public queries; commitments by the independent prover (opsim/prover)"
	comp["network between actors and mempools"] = "stub: simulated transport (drop, duplicate, delay, reorder, partition) in front of the real CheckTx"
	assume := []string{"outer tx signatures are not verified; the signer is the declared signer field", "single block proposer per chain", "the executor relays faithfully (C08's premise); the proposer only commits to withdrawals the L2 recorded"}

	c08 := &tcProfile{Prop: "C08", DepFault: 4, Reimport: 1, Others: 6, Steps: [2]int{60, 220}, Faults: true, Challenge: 2, Hooks: 20, BadRcpt: 12, BigAmts: true}
	core.Register(&core.Scenario{ID: "C08", Level: "exploration", Run: runTwoChain(c08), Components: comp, Assumptions: assume,
		Rule:      "the full bridge: real L1 and L2 nodes, users on both sides, 1-3 racing executors, proposer, challenger forcing re-proposal, claimers, third-party sends, other rollups' bridges on the same L1 (created before and after this one, with their own deposits, proposals, deletions, claims and role changes), over a simulated network with loss / duplication / delay / reordering / partitions and crash-restart of either node, client traffic on discarded branches, aborted optimistic executions, restarts of either chain from its exported genesis, then a fault-free drain; oracle: both lock-step models plus the peg equation escrow = L2 supply + deposits in flight + unpaid withdrawals (from parsed events and public queries) after every block of either chain, and after the drain every claim paid exactly once, escrow = supply, combined holdings unchanged; non-trivial = >=2 deposits, >=1 withdrawal and >=1 successful claim",
		QuickRuns: 1500, QuickSecs: 75, ThoroughRuns: 20000, ThoroughSecs: 800,
		RequiredProbes: []string{"drain.completed", "e2e.claim-succeeded", "deposit.refunded", "challenge.deleted", "mempool.redundant-relay-filtered"}})

	c04 := &tcProfile{Prop: "C04", Reimport: 1, Others: 5, Steps: [2]int{80, 300}, Faults: false, Challenge: 1, BigTrees: true, BigAmts: true, Hooks: 15, BadRcpt: 25, WWithdraw: 16, WPropose: 1}
	core.Register(&core.Scenario{ID: "C04", Level: "exploration", Run: runTwoChain(c04), Components: comp, Assumptions: assume,
		Rule:      "the full bridge with a faithful executor whose trees are built from the L2 initiate_token_withdrawal events only (independent prover, both odd-node rules): user withdrawals and refund withdrawals (malformed / blocked recipients, failing hooks) with amounts from {1, typical, 2^62, 2^63-1, 2^63, 2^64-1, 2^64+}, several denoms, upper-case bech32 and L1 module-account recipients, arbitrary output version bytes, other rollups' bridges on the same L1, restarts from exported genesis, trees of 1-33 leaves with every leaf claimed, challenger deletion with re-proposal; oracle: every recorded withdrawal with positive amount and valid L1 recipient is finalised exactly once within the drain budget; non-trivial = >=2 deposits, >=1 withdrawal and >=1 successful claim",
		QuickRuns: 1500, QuickSecs: 75, ThoroughRuns: 15000, ThoroughSecs: 800,
		RequiredProbes: []string{"drain.completed", "e2e.claim-succeeded", "deposit.refunded", "claim.tree-size>=9", "claim.last-leaf-of-odd-tree"}})

	// C06 and C02 get a share of two-chain runs: concurrent relays / claims over the faulty network, with the
	// porcupine second opinion on the client-visible history
	for _, id := range []string{"C06", "C02"} {
		sc := core.Lookup(id)
		single := sc.Run
		tcr := runTwoChain(&tcProfile{Prop: id, Reimport: 1, Steps: [2]int{60, 200}, Faults: true, Challenge: 3, Hooks: 15, BadRcpt: 12})
		sc.Run = func(r *core.Run) *core.Violation {
			if r.Intn(5) == 0 {
				r.Logf("%s on the two-chain world (network faults, history checked with porcupine)", r.Prop)
				return tcr(r)
			}
			return single(r)
		}
		sc.Rule += "; one run in five is a two-chain run in which relays / claims race over a lossy, duplicating, delaying network and the client-visible history (invoke = hand-over to the network, return = block result) is checked for linearizability with porcupine against an in-order counter / a paid-at-most-once set"
	}

	c16 := &tcProfile{Prop: "C16", Steps: [2]int{60, 200}, Faults: false, Challenge: 2, Hooks: 15, BadRcpt: 15, Admin: true, Reimport: 4, Plans: false}
	// one run in three is a single-chain history with the broader message mix of the L1 / L2 worlds (several
	// bridges, long output logs, validator and parameter traffic), restarted from exported genesis at a high rate
	c16l1 := &l1Profile{Prop: "C16", Reimport: 10, Blocks: [2]int{12, 50}, MaxTx: 5, Crash: 3, Periods: stdPeriods, RegFee: true,
		W: map[string]int{"burst": 6, "claimburst": 10, "create": 8, "deposit": 20, "propose": 25, "delete": 8, "claim": 25, "updProposer": 3, "updChallenger": 3, "batchInfo": 4, "metadata": 2,
			"oracleCfg": 1, "params": 1, "recordBatch": 2, "send": 3, "multi": 5},
		NonTriv: func(w *l1World) bool {
			return w.r.Faults["restart-from-exported-genesis.L1"] >= 1 && len(w.m.Bridges) >= 1
		}}
	c16l2 := &l2Profile{Prop: "C16", Reimport: 10, Blocks: [2]int{12, 50}, MaxTx: 5, Crash: 3, Hooks: 15, BadRcpt: 15,
		W:       map[string]int{"relay": 30, "relaybatch": 4, "withdraw": 15, "send": 6, "addval": 12, "rmval": 8, "params": 10, "spend": 3, "bridgeinfo": 6, "exec": 8},
		NonTriv: func(w *l2World) bool { return w.r.Faults["restart-from-exported-genesis.L2"] >= 1 }}
	c16tc, c16a, c16b := runTwoChain(c16), runL1(c16l1), runL2(c16l2)
	runC16 := func(r *core.Run) *core.Violation {
		switch r.Intn(6) {
		case 0:
			r.Probe("genesis.single-chain-l1")
			return c16a(r)
		case 1:
			r.Probe("genesis.single-chain-l2")
			return c16b(r)
		}
		v := c16tc(r)
		if r.Faults["restart-from-exported-genesis.L1"]+r.Faults["restart-from-exported-genesis.L2"] == 0 {
			r.NonTriv = false
		}
		return v
	}
	core.Register(&core.Scenario{ID: "C16", Level: "exploration", Run: runC16, Components: comp, Assumptions: append(append([]string{}, assume...), "the re-imported chain starts at the next height; the L2's cached L1 validator set and per-height history are not part of genesis (documented exclusions)"),
		Rule:      "two runs in three: random two-chain histories with all message types (several bridges, deleted and re-proposed outputs, refunded deposits, removed validators, several batch-info generations, parameter changes) in which either chain is, at scheduler-chosen points and repeatedly, exported, validated and re-initialised on a fresh node at the next height; oracle: the second export is byte-identical per module, the L2's InitChain validator updates equal the bonded set, and the run continues on the re-imported node with the lock-step model still attached, so every later response, event and query must equal what the original chain would have produced (after a re-import every model deviation counts); one run in three is a single-chain L1 or L2 history with the broader message mix of those worlds (several bridges, bursts of >100 outputs, maximum-length denoms, validator / parameter / executor traffic) restarted from exported genesis before about 10% of the blocks; an exported genesis edited to carry a non-positive finalization period must be refused; non-trivial = at least one restart from exported genesis happened",
		QuickRuns: 1500, QuickSecs: 75, ThoroughRuns: 20000, ThoroughSecs: 800,
		RequiredProbes: []string{"drain.completed", "e2e.claim-succeeded"}})

	c18 := &tcProfile{Prop: "C18", Steps: [2]int{50, 160}, Faults: false, Challenge: 2, Hooks: 15, BadRcpt: 15, Admin: true, Replicas: true, Plans: true}
	// one run in six: the permissioned-channel hook world (metadata grammar, IBC stub traffic) under replicas
	c18hook := &l1Profile{Prop: "C18", Blocks: [2]int{10, 45}, MaxTx: 4, Crash: 5, Hook: true, Periods: []time.Duration{time.Second, time.Hour},
		W:       map[string]int{"create": 30, "metadata": 30, "updChallenger": 25, "updProposer": 5, "deposit": 3, "propose": 3},
		NonTriv: func(w *l1World) bool { return len(w.m.Bridges) >= 1 }}
	runC18 := func(r *core.Run) *core.Violation {
		if r.Chance(1, 6) {
			r.Probe("replica.hook-scenario")
			w := newL1World(r, c18hook)
			w.addReplicas(w.genesis)
			for i, nb := 0, 10+r.Intn(36); i < nb; i++ {
				if v := w.runBlock(); v != nil {
					return v
				}
			}
			r.NonTriv = c18hook.NonTriv(w)
			return nil
		}
		if r.Chance(1, 4) {
			// the oracle relay path (stale, replayed and Byzantine price updates) under replicas
			r.Probe("replica.oracle-scenario")
			return runC15As(r, "C18", true)
		}
		return runTwoChain(c18)(r)
	}
	core.Register(&core.Scenario{ID: "C18", Level: "exploration", Run: runC18, Components: comp, Assumptions: append(append([]string{}, assume...), "Go map iteration order cannot be seeded: independent replicas in one process get independent orders, so an order dependence over n entries escapes one comparison with probability about 1/n! and a replay reports the divergence rate over repeated executions rather than bit-exact reproduction"),
		Rule:      "every block of a two-chain history (with admin traffic and executor-change plans so that several validators leave in one block) is also executed on two independent replicas per chain: one crashed and restarted before blocks and between FinalizeBlock and Commit, one receiving CheckTx / simulate / query traffic between blocks, both under another local time zone than the main node and in half of the blocks executing at the same time on separate threads; the main node itself serves client traffic on discarded branches and meets aborted optimistic executions; one run in four is the oracle-relay scenario (honest, stale, replayed and Byzantine price updates, light-client refreshes) under the same replicas; oracle: identical tx results (code, data, gas, events in order, error text), validator updates in order, block events, app hash and raw store contents after every block; non-trivial = >=2 deposits, >=1 withdrawal, >=1 successful claim",
		QuickRuns: 800, QuickSecs: 75, ThoroughRuns: 12000, ThoroughSecs: 800,
		RequiredProbes: []string{"replica.compared", "replica.compared-multi-validator-update", "replica.oracle-scenario"}})
}
