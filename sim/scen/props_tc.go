package scen

import (
	"opsim/core"
)

func init() {
	comp := map[string]string{}
	for k, v := range l1Components {
		if k == "L2 + executor" {
			continue
		}
		comp["L1: "+k] = v
	}
	for k, v := range l2Components {
		if k == "L1 + executor" {
			continue
		}
		comp["L2: "+k] = v
	}
	comp["executors / proposer / challenger / claimers / users"] = "stub: simulated actors that act only on parsed events and public queries; commitments by the independent prover (opsim/prover)"
	comp["network between actors and mempools"] = "stub: simulated transport (drop, duplicate, delay, reorder, partition) in front of the real CheckTx"
	assume := []string{"outer tx signatures are not verified; the signer is the declared signer field", "single block proposer per chain", "the executor relays faithfully (C08's premise); the proposer only commits to withdrawals the L2 recorded"}

	c08 := &tcProfile{Prop: "C08", Steps: [2]int{60, 220}, Faults: true, Challenge: 2, Hooks: 20, BadRcpt: 12}
	core.Register(&core.Scenario{ID: "C08", Level: "exploration", Run: runTwoChain(c08), Components: comp, Assumptions: assume,
		Rule: "the full bridge: real L1 and L2 nodes, users on both sides, 1-3 racing executors, proposer, challenger forcing re-proposal, claimers, third-party sends, over a simulated network with loss / duplication / delay / reordering / partitions and crash-restart of either node, then a fault-free drain; oracle: both lock-step models plus the peg equation escrow = L2 supply + deposits in flight + unpaid withdrawals (from parsed events and public queries) after every block of either chain, and after the drain every claim paid exactly once, escrow = supply, combined holdings unchanged; non-trivial = >=2 deposits, >=1 withdrawal and >=1 successful claim",
		QuickRuns: 400, QuickSecs: 80, ThoroughRuns: 15000, ThoroughSecs: 800,
		RequiredProbes: []string{"drain.completed", "e2e.claim-succeeded", "deposit.refunded", "challenge.deleted", "mempool.redundant-relay-filtered"}})

	c04 := &tcProfile{Prop: "C04", Steps: [2]int{80, 260}, Faults: false, Challenge: 1, BigTrees: true, BigAmts: true, Hooks: 15, BadRcpt: 20}
	core.Register(&core.Scenario{ID: "C04", Level: "exploration", Run: runTwoChain(c04), Components: comp, Assumptions: assume,
		Rule: "the full bridge with a faithful executor whose trees are built from the L2 initiate_token_withdrawal events only (independent prover, both odd-node rules): user withdrawals and refund withdrawals (malformed / blocked recipients, failing hooks) with amounts from {1, typical, 2^62, 2^63-1, 2^63, 2^64-1, 2^64+}, several denoms, upper-case bech32 recipients, trees of 1-33 leaves with every leaf claimed, challenger deletion with re-proposal; oracle: every recorded withdrawal with positive amount and valid L1 recipient is finalised exactly once within the drain budget; non-trivial = >=2 deposits, >=1 withdrawal and >=1 successful claim",
		QuickRuns: 400, QuickSecs: 80, ThoroughRuns: 15000, ThoroughSecs: 800,
		RequiredProbes: []string{"drain.completed", "e2e.claim-succeeded", "deposit.refunded"}})
}
