package scen

import (
	"fmt"
	"os"
	"strings"
	"time"

	dbm "github.com/cosmos/cosmos-db"
	sdk "github.com/cosmos/cosmos-sdk/types"

	opchildtypes "github.com/initia-labs/OPinit/x/opchild/types"

	"opsim/core"
	"opsim/engine"
	"opsim/node"
)

// ---------------------------------------------------------------------------
// C07 — fault enumeration.  For every generated deposit the handler is first
// run fault-free while every call it makes through the bank / account-keeper
// seams and the hook-target message server is recorded; then it is re-run
// from the same state once per (call index, {error, panic}).
// ---------------------------------------------------------------------------

func copyMemDB(src *dbm.MemDB) *dbm.MemDB {
	dst := dbm.NewMemDB()
	it, err := src.Iterator(nil, nil)
	if err != nil {
		panic(err)
	}
	defer it.Close()
	for ; it.Valid(); it.Next() {
		if err := dst.Set(append([]byte{}, it.Key()...), append([]byte{}, it.Value()...)); err != nil {
			panic(err)
		}
	}
	return dst
}

// fork clones the whole world (durable state, model, engine) so that a fault
// variant can be executed from exactly the same state.
func (w *l2World) fork() *l2World {
	f := *w
	f.db = copyMemDB(w.db)
	f.n = node.NewL2(f.db, nil, w.opts, w.plans)
	f.m = w.m.clone()
	f.eng = engine.New(w.eng.PubKeyTypes)
	if w.eng.Set != nil {
		f.eng.Set = w.eng.Set.Copy()
	}
	f.prevDig = map[string][32]byte{}
	for k, v := range w.prevDig {
		f.prevDig[k] = v
	}
	f.hist = map[int64]map[string]int64{}
	for k, v := range w.hist {
		f.hist[k] = v
	}
	f.histWritten = map[int64]bool{}
	for k, v := range w.histWritten {
		f.histWritten[k] = v
	}
	f.succ = map[string]int{}
	f.deps = map[uint64]*l1Deposit{}
	for k, v := range w.deps {
		f.deps[k] = v
	}
	return &f
}

// contained reports whether a recorded call belongs to the region the
// property says must never turn into a handler error: the mint, the transfer
// to the recipient, and everything a hook message does.
func containedCall(calls []string, k int) bool {
	c := calls[k]
	switch {
	case strings.HasSuffix(c, ":MintCoins"), strings.HasSuffix(c, ":MsgSend"):
		return true
	case strings.HasSuffix(c, ":SendCoinsFromModuleToAccount"):
		return true
	}
	return false
}

func (w *l2World) singleTxBlock(msg sdk.Msg, memo string, kind, desc string) *core.Violation {
	T := w.now.Add(time.Second)
	bc := blockCtx{Height: w.n.Height() + 1, Time: T}
	w.histEntriesAtBegin = w.m.Params.HistoricalEntries
	for h := range w.histWritten {
		if h <= bc.Height-int64(w.histEntriesAtBegin) {
			delete(w.histWritten, h)
		}
	}
	if w.histEntriesAtBegin > 0 {
		w.histWritten[bc.Height] = true
	}
	bz, err := node.BuildTx(w.enc, []sdk.Msg{msg}, node.TxOpts{Memo: memo, Gas: 2_000_000_000})
	if err != nil {
		panic(err)
	}
	return w.execBlock(bc, []l2Pending{{Msgs: []sdk.Msg{msg}, Bytes: bz, Kind: kind, Desc: desc, Fault: memo}}, "")
}

func runC07(p *l2Profile) func(r *core.Run) *core.Violation {
	return func(r *core.Run) *core.Violation {
		pp := *p
		w := newL2World(r, &pp)
		// warm-up: reach a varied state
		nb := r.Intn(8)
		for i := 0; i < nb; i++ {
			if v := w.runBlock(); v != nil {
				return v
			}
		}
		nd := 1 + r.Intn(3)
		for d := 0; d < nd; d++ {
			seq := w.m.NextL1Seq
			sender := w.m.Params.BridgeExecutors
			if len(sender) == 0 {
				break
			}
			delete(w.deps, seq) // draw a fresh deposit with the full input variety
			msg := w.depositMsg(w.m, seq, sender[r.Intn(len(sender))])
			class := depositClass(w, msg)
			desc := fmt.Sprintf("seq=%d %s to=%s data=%dB class=%s", seq, msg.Amount, short(msg.To), len(msg.Data), class)
			// 1. fault-free reference run on a fork, recording the calls
			ref := w.fork()
			if v := ref.singleTxBlock(msg, "", "relay", desc); v != nil {
				return v
			}
			r.Stat("c07.deposits", 1)
			if len(ref.lastCalls) != 1 {
				panic("call log missing")
			}
			calls := ref.lastCalls[0]
			refGas := ref.lastRes.TxResults[0].GasUsed
			// hook gas: compare with the same deposit carrying a payload that costs (almost) no hook gas and takes the
			// same path afterwards -- no payload when the deposit was credited, an undecodable one-byte payload
			// when it was refunded (same reclaim / burn / refund bookkeeping)
			if len(msg.Data) > 0 && w.m.Params.HookMaxGas > 0 {
				nh := *msg
				nh.Data = nil
				evs := node.EventAttrs(ref.lastRes.TxResults[0].Events, "finalize_token_deposit")
				refunded := len(evs) == 1 && evs[0]["success"] != "true"
				a, okA := validAddr(msg.To)
				hookRan := okA && !(w.m.Blocked[string(a)] && msg.Amount.IsPositive())
				if refunded && hookRan {
					nh.Data = []byte{0xff}
				}
				if !refunded || hookRan {
					g0 := w.fork()
					if v := g0.singleTxBlock(&nh, "", "relay", desc+" (gas baseline)"); v != nil {
						return v
					}
					base := g0.lastRes.TxResults[0].GasUsed
					if os.Getenv("OPSIM_DEBUG_GAS") != "" {
						fmt.Fprintf(os.Stderr, "GASDIFF %d class=%s refunded=%v\n", refGas-base-int64(w.m.Params.HookMaxGas), class, refunded)
					}
					if refGas > base+int64(w.m.Params.HookMaxGas)+1_000 {
						return w.fail(mismatch{"hook.gas-unbounded", "hook-gas-over-allowance", []string{"C07"}, fmt.Sprintf("deposit with payload used %d gas, the same deposit with a free payload %d, hook allowance %d", refGas, base, w.m.Params.HookMaxGas)})
					}
					r.Probe("c07.gas-bound-checked")
					if refunded {
						r.Probe("c07.gas-bound-checked-on-refund")
					}
				}
			}
			// per-site call indices
			siteIdx := map[string]int{}
			for k, c := range calls {
				site := strings.SplitN(c, ":", 2)[0]
				idx := siteIdx[site]
				siteIdx[site]++
				for _, kind := range []string{"err", "panic"} {
					memo := fmt.Sprintf("fault:%s:%d:%s", site, idx, kind)
					fv := w.fork()
					cont := containedCall(calls, k)
					region := "outside"
					if cont {
						region = "contained"
					}
					vdesc := fmt.Sprintf("%s FAULT call#%d %s (%s, %s)", desc, k, c, kind, region)
					if v := fv.singleTxBlock(msg, memo, "relay", vdesc); v != nil {
						return v
					}
					r.Stat("c07.fault-variants", 1)
					if len(fv.lastFired) != 1 || !fv.lastFired[0] {
						// a fault earlier in the handler can change the call sequence; here the k-th call was not reached
						r.Probe("c07.fault-not-reached")
						continue
					}
					r.Mark(class + "|" + c + "|" + kind)
					r.Probe("c07.site." + region + "." + strings.SplitN(c, ":", 2)[1] + "." + kind)
					ok := fv.lastRes.TxResults[0].Code == 0
					if cont && !ok {
						return w.fail(mismatch{"deposit.contained-fault-escaped", "contained-fault-became-handler-error:" + strings.SplitN(c, ":", 2)[1], []string{"C07"},
							fmt.Sprintf("a %s injected at %s (call #%d of the handler) made the deposit at the expected sequence fail: %s", kind, c, k, firstLine(fv.lastRes.TxResults[0].Log))})
					}
					if !ok {
						// outside the contained region the handler may fail, atomically (checked by execBlock's
						// full-state comparison); an immediate fault-free retry must then complete the deposit
						r.Probe("c07.outside-fault-aborted")
						if v := fv.singleTxBlock(msg, "", "relay", desc+" RETRY after aborted attempt"); v != nil {
							return v
						}
						if fv.lastRes.TxResults[0].Code != 0 {
							return w.fail(mismatch{"deposit.stuck-after-fault", "deposit-stuck-after-transient-fault", []string{"C07"}, "fault-free retry of the deposit failed: " + firstLine(fv.lastRes.TxResults[0].Log)})
						}
					}
					// in every case the next sequence must be processable (no stall)
					if fv.m.NextL1Seq != seq+1 {
						return w.fail(mismatch{"deposit.sequence-not-advanced", "sequence-not-advanced", []string{"C07", "C06"}, fmt.Sprintf("after deposit %d next sequence is %d", seq, fv.m.NextL1Seq)})
					}
					delete(fv.deps, seq+1)
					saveH := fv.p.Hooks
					fv.p.Hooks = 0
					nxt := fv.depositMsg(fv.m, seq+1, sender[0])
					fv.p.Hooks = saveH
					if v := fv.singleTxBlock(nxt, "", "relay", fmt.Sprintf("seq=%d follow-up deposit", seq+1)); v != nil {
						return v
					}
					if fv.lastRes.TxResults[0].Code != 0 {
						return w.fail(mismatch{"deposit.stalled", "next-deposit-stalled", []string{"C07"}, "the deposit following a faulted one could not be processed: " + firstLine(fv.lastRes.TxResults[0].Log)})
					}
				}
			}
			// advance the main world with the fault-free execution
			if v := w.singleTxBlock(msg, "", "relay", desc); v != nil {
				return v
			}
			r.Probe("c07.class." + class)
		}
		r.NonTriv = r.Stats["c07.fault-variants"] >= 2
		return nil
	}
}

// depositClass names the input class of a deposit (for coverage accounting).
func depositClass(w *l2World, msg *opchildtypes.MsgFinalizeTokenDeposit) string {
	rc := "rcpt-valid"
	if a, ok := validAddr(msg.To); !ok {
		rc = "rcpt-malformed"
	} else if w.m.Blocked[string(a)] {
		rc = "rcpt-blocked"
	}
	am := "amt-positive"
	if msg.Amount.IsZero() {
		am = "amt-zero"
	} else if !msg.Amount.Amount.IsUint64() {
		am = "amt-over-64-bits"
	}
	hk := "no-payload"
	if len(msg.Data) > 0 {
		hk = "payload-unknown"
		if hs := w.m.hooks[fmt.Sprintf("%x", msg.Data)]; hs != nil {
			hk = "payload-" + hs.Class
		}
	}
	return rc + "," + am + "," + hk
}
