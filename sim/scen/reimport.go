package scen

import (
	"bytes"
	"encoding/json"
	"fmt"
	"sort"

	dbm "github.com/cosmos/cosmos-db"
	"github.com/cosmos/cosmos-sdk/types/module"
	authtypes "github.com/cosmos/cosmos-sdk/x/auth/types"
	banktypes "github.com/cosmos/cosmos-sdk/x/bank/types"

	opchildtypes "github.com/initia-labs/OPinit/x/opchild/types"
	ophosttypes "github.com/initia-labs/OPinit/x/ophost/types"

	"opsim/core"
	"opsim/engine"
	"opsim/node"
)

// ---------------------------------------------------------------------------
// C16 — restart from exported genesis: export -> ValidateGenesis -> InitChain
// on a fresh node at the next height -> export again.  The second export must
// be identical, and the run then continues on the re-imported node while the
// lock-step model (= the original chain's behaviour) keeps being compared, so
// every later message and query must be answered as the original would.
// ---------------------------------------------------------------------------

func diffState(a, b map[string]json.RawMessage) string {
	keys := map[string]bool{}
	for k := range a {
		keys[k] = true
	}
	for k := range b {
		keys[k] = true
	}
	ks := make([]string, 0, len(keys))
	for k := range keys {
		ks = append(ks, k)
	}
	sort.Strings(ks)
	for _, k := range ks {
		if !bytes.Equal(a[k], b[k]) {
			x, y := string(a[k]), string(b[k])
			// locate the first difference
			i := 0
			for i < len(x) && i < len(y) && x[i] == y[i] {
				i++
			}
			lo := i - 60
			if lo < 0 {
				lo = 0
			}
			hx, hy := i+100, i+100
			if hx > len(x) {
				hx = len(x)
			}
			if hy > len(y) {
				hy = len(y)
			}
			return fmt.Sprintf("module %s differs at byte %d: ...%s... vs ...%s...", k, i, x[lo:hx], y[lo:hy])
		}
	}
	return ""
}

func (w *l1World) reimport() *core.Violation {
	own := []string{"C16"}
	st := w.n.ExportAppState()
	if err := w.n.MM.Modules[ophosttypes.ModuleName].(module.HasGenesisBasics).ValidateGenesis(w.enc.Codec, w.enc.TxConfig, st[ophosttypes.ModuleName]); err != nil {
		return w.fail(mismatch{"genesis.export-invalid", "l1-exported-genesis-invalid", own, "the exported ophost genesis does not validate: " + err.Error()})
	}
	if v := w.hostileGenesis(st); v != nil {
		return v
	}
	db2 := dbm.NewMemDB()
	var n2 *node.L1
	// the new chain continues the height count of the old one, or (a regenesis with the
	// default initial_height) starts over from 1: block heights recorded before the restart
	// then lie in the new chain's future
	ih := w.n.Height() + 1
	if w.r.Chance(1, 3) {
		ih = 1
		w.r.Fault("restart-from-exported-genesis.heights-start-over")
	}
	func() {
		defer func() {
			if x := recover(); x != nil {
				n2 = nil
				w.r.Logf("InitChain from the exported L1 genesis panicked: %v", x)
			}
		}()
		n2 = node.NewL1(db2, &node.L1Genesis{Time: w.now, AppState: st, InitialHeight: ih})
	}()
	if n2 == nil {
		return w.fail(mismatch{"genesis.import-failed", "l1-import-failed", own, "a fresh L1 node could not be initialised from the exported genesis"})
	}
	// for every property but C16 the restart is just one more fault: C16's own oracle
	// (second export identical) is not evaluated and the property's invariants judge
	// the restarted chain
	st2 := n2.ExportAppState()
	if d := diffState(st, st2); d != "" && w.p.Prop == "C16" {
		return w.fail(mismatch{"genesis.round-trip", "l1-export-not-fixed-point", own, "L1 export -> import -> export is not the identity: " + d})
	}
	w.r.Step("reimport", "L1 restarted from exported genesis at height %d (%d bytes of ophost state)", n2.Height(), len(st[ophosttypes.ModuleName]))
	w.r.Fault("restart-from-exported-genesis.L1")
	w.db, w.n = db2, n2
	w.prevDig = map[string][32]byte{}
	if ih == 1 {
		// what was observed in a block of the old chain says nothing about the block of the same height of the new one
		w.m.bandObs = map[string]bool{}
	}
	w.ownAll = w.p.Prop == "C16"
	// the fresh node executed one empty block at the next height; its state must still match the model
	// (for other properties than C16 only what they own is judged here: their message-level
	// oracles get to see the restarted chain before a foreign state deviation ends the run)
	w.lenient = w.p.Prop != "C16"
	defer func() { w.lenient = false }()
	return w.compare(blockCtx{Height: n2.Height(), Time: w.now}, true)
}

func (w *l2World) reimport() *core.Violation {
	own := []string{"C16"}
	st := w.n.ExportAppState()
	if err := w.n.MM.Modules[opchildtypes.ModuleName].(module.HasGenesisBasics).ValidateGenesis(w.enc.Codec, w.enc.TxConfig, st[opchildtypes.ModuleName]); err != nil {
		return w.fail(mismatch{"genesis.export-invalid", "l2-exported-genesis-invalid", own, "the exported opchild genesis does not validate: " + err.Error()})
	}
	db2 := dbm.NewMemDB()
	var n2 *node.L2
	func() {
		defer func() {
			if x := recover(); x != nil {
				n2 = nil
				w.r.Logf("InitChain from the exported L2 genesis panicked: %v", x)
			}
		}()
		n2 = node.NewL2(db2, &node.L2Genesis{Time: w.now, AppState: st, InitialHeight: w.n.Height() + 1}, w.opts, w.plans)
	}()
	if n2 == nil {
		return w.fail(mismatch{"genesis.import-failed", "l2-import-failed", own, "a fresh L2 node could not be initialised from the exported genesis"})
	}
	// the initial validator updates describe exactly the bonded set, in a form a consensus engine can start from
	types := []string{"ed25519"}
	if w.opts.SecpVals {
		types = append(types, "secp256k1")
	}
	if err := engine.New(types).InitChain(n2.InitValidators); err != nil {
		return w.fail(mismatch{"genesis.init-validators", "l2-init-validators", []string{"C16", "C13"}, "a consensus engine cannot start from the validator updates returned by InitChain after import: " + err.Error()})
	}
	iv := map[string]int64{}
	for _, u := range n2.InitValidators {
		k := fmt.Sprintf("%x", pkBytes(u.PubKey))
		if _, dup := iv[k]; dup {
			return w.fail(mismatch{"genesis.init-validators", "l2-init-validators", []string{"C16", "C13"}, "InitChain returned a validator key twice"})
		}
		iv[k] = u.Power
	}
	if d := diffPowers(iv, w.eng.Powers()); d != "" {
		return w.fail(mismatch{"genesis.init-validators", "l2-init-validators", []string{"C16", "C13"}, "the validator updates returned by InitChain after import differ from the bonded set: " + d})
	}
	st2 := n2.ExportAppState()
	if d := diffState(st, st2); d != "" && w.p.Prop == "C16" {
		return w.fail(mismatch{"genesis.round-trip", "l2-export-not-fixed-point", own, "L2 export -> import -> export is not the identity: " + d})
	}
	w.r.Step("reimport", "L2 restarted from exported genesis at height %d (%d bytes of opchild state)", n2.Height(), len(st[opchildtypes.ModuleName]))
	w.r.Fault("restart-from-exported-genesis.L2")
	w.db, w.n = db2, n2
	w.prevDig = map[string][32]byte{}
	// per-height history and the cached L1 validator set are deliberately not part of genesis
	w.histWritten = map[int64]bool{}
	w.hist = map[int64]map[string]int64{}
	if w.m.Params.HistoricalEntries > 0 {
		w.histWritten[n2.Height()] = true
	}
	w.hist[n2.Height()] = w.eng.Powers()
	w.ownAll = w.p.Prop == "C16"
	res, err := emptyResult()
	_ = err
	w.lenient = w.p.Prop != "C16"
	defer func() { w.lenient = false }()
	return w.endOfBlock(blockCtx{Height: n2.Height(), Time: w.now}, res, true)
}

var _ = authtypes.ModuleName
var _ = banktypes.ModuleName

// hostileGenesis: an operator restarts the chain from an exported genesis that was edited on the way (a
// bridge whose finalization period is zero or negative).  Genesis import is one of the ways the chain
// accepts a bridge, so the import must refuse it exactly as MsgCreateBridge does.
func (w *l1World) hostileGenesis(st map[string]json.RawMessage) *core.Violation {
	if !w.r.Chance(1, 4) {
		return nil
	}
	var g map[string]interface{}
	if err := json.Unmarshal(st[ophosttypes.ModuleName], &g); err != nil {
		return nil
	}
	bridges, _ := g["bridges"].([]interface{})
	if len(bridges) == 0 {
		return nil
	}
	b, _ := bridges[w.r.Intn(len(bridges))].(map[string]interface{})
	cfg, _ := b["bridge_config"].(map[string]interface{})
	if cfg == nil {
		return nil
	}
	period := []string{"0s", "-0.000000001s", "-3600s"}[w.r.Intn(3)]
	cfg["finalization_period"] = period
	bz, err := json.Marshal(g)
	if err != nil {
		return nil
	}
	st2 := map[string]json.RawMessage{}
	for k, v := range st {
		st2[k] = v
	}
	st2[ophosttypes.ModuleName] = bz
	w.r.Fault("restart-from-edited-genesis.hostile-period")
	accepted := false
	func() {
		defer func() { _ = recover() }()
		_ = node.NewL1(dbm.NewMemDB(), &node.L1Genesis{Time: w.now, AppState: st2, InitialHeight: w.n.Height() + 1})
		accepted = true
	}()
	if accepted {
		return w.fail(mismatch{"genesis.hostile-period-accepted", "genesis-nonpositive-period", []string{"C05", "C16"}, "InitChain accepted a genesis in which a bridge has finalization period " + period})
	}
	w.r.Probe("genesis.hostile-period-refused")
	return nil
}
