package scen

import (
	"time"

	"opsim/core"
)

var l2Components = map[string]string{
	"x/opchild keeper, msg server, querier, genesis, Begin/EndBlocker": "real",
	"x/auth, x/bank keepers and bank msg server (hook target)":         "real (bank seen by opchild and by hook messages through a fault-injecting wrapper)",
	"SDK signature decorators on hook payloads":                        "real (real secp256k1 signatures)",
	"connect x/oracle keeper":                                          "real",
	"baseapp (runTx, gas, panic recovery, commit)":                     "real",
	"consensus engine":                "stub: single proposer; validator-set half is the real cometbft ValidatorSet.UpdateWithChangeSet",
	"outer tx signature verification": "stub: signer = declared signer field",
	"L1 + executor":                   "stub: fabricated deposit stream (fixed content per sequence) relayed by simulated executors",
}

func runL2(p *l2Profile) func(r *core.Run) *core.Violation {
	return func(r *core.Run) *core.Violation {
		pp := *p
		w := newL2World(r, &pp)
		nb := p.Blocks[0] + r.Intn(p.Blocks[1]-p.Blocks[0]+1)
		if r.Tier == "thorough" && r.Chance(1, 4) {
			nb *= 3
		}
		for i := 0; i < nb; i++ {
			if v := w.runBlock(); v != nil {
				return v
			}
		}
		r.NonTriv = p.NonTriv(w)
		return nil
	}
}

func init() {
	l2Assume := []string{"outer tx signatures are not verified; the signer is the declared signer field", "single block proposer", "the L1 side is a fabricated deposit stream with fixed content per sequence"}

	c06 := &l2Profile{Prop: "C06", Reimport: 2, Blocks: [2]int{10, 50}, MaxTx: 6, Crash: 8, Hooks: 15, BadRcpt: 10, GasAbort: 3,
		W:       map[string]int{"relay": 60, "relaybatch": 12, "withdraw": 6, "send": 8, "params": 3, "bridgeinfo": 1},
		NonTriv: func(w *l2World) bool { return w.m.NextL1Seq >= 4 && w.r.Probes["deposit.noop-replay"] >= 1 }}
	core.Register(&core.Scenario{ID: "C06", Level: "exploration", Run: runL2(c06), Components: l2Components, Assumptions: l2Assume,
		Rule:      "seeded relay schedules over a deposit stream: 1-3 authorised executors plus an outsider offer every sequence any number of times, in any order, ahead of time and long after processing, singly and batched in one tx, interleaved with transfers, withdrawals and executor-list rotations, with crash between FinalizeBlock and Commit; oracle: SUCCESS results are exactly 1,2,3,..., stale => NOOP with no event and no state change, ahead => error, NextL1Sequence = 1 + processed, ledger and supply equality; non-trivial = >=3 deposits processed and >=1 stale replay",
		QuickRuns: 1500, QuickSecs: 75, ThoroughRuns: 40000, ThoroughSecs: 700,
		RequiredProbes: []string{"deposit.noop-replay", "reject.l2deposit.sequence-ahead", "reject.auth.finalize-deposit"}})

	c09 := &l2Profile{Prop: "C09", Reimport: 2, Blocks: [2]int{10, 50}, MaxTx: 5, Crash: 5, DepFault: 5, GasAbort: 4, Hooks: 20, BadRcpt: 20,
		W:       map[string]int{"relay": 40, "relaybatch": 4, "withdraw": 35, "send": 15, "params": 2, "bridgeinfo": 2},
		NonTriv: func(w *l2World) bool { return w.succ["withdraw"] >= 1 && w.m.NextL1Seq >= 3 }}
	core.Register(&core.Scenario{ID: "C09", Level: "exploration", Run: runL2(c09), Components: l2Components, Assumptions: l2Assume,
		Rule:      "seeded histories of credited and refunded deposits, transfers and withdrawal attempts by any account (below / at / above balance; bridged, native and unknown denoms; a later deposit naming another base denom for a known L2 denom) with crash/restart and dependency faults on burn/send; oracle: supply(d) = credited - withdrawn after every block, exact debit of the signer, one gap-free L2 sequence shared by user and refund withdrawals, immutable denom mapping; non-trivial = >=1 successful withdrawal and >=2 processed deposits",
		QuickRuns: 2500, QuickSecs: 75, ThoroughRuns: 40000, ThoroughSecs: 700,
		RequiredProbes: []string{"reject.withdraw.non-l1-token", "reject.withdraw.insufficient", "deposit.refunded"}})

	c13 := &l2Profile{Prop: "C13", Reimport: 2, Blocks: [2]int{12, 60}, MaxTx: 5, Crash: 10, Plans: true,
		W: map[string]int{"addval": 35, "rmval": 30, "params": 12, "exec": 10, "relay": 4, "send": 2},
		NonTriv: func(w *l2World) bool {
			return w.succ["addval"] >= 1 && w.succ["rmval"] >= 1 && w.r.Probes["validators.updates-returned"] >= 2
		}}
	core.Register(&core.Scenario{ID: "C13", Level: "exploration", Run: runL2(c13), Components: l2Components, Assumptions: l2Assume,
		Rule:      "seeded histories of add / remove validator, max-validators and retention changes (directly and batched through MsgExecuteMessages), several per block, add-then-remove, remove-then-re-add, same key under another operator, from random genesis sets, with crash between FinalizeBlock and Commit and block replay; every returned update batch is fed to the real CometBFT ValidatorSet; oracle: engine set = positive-power validators in state = last powers after every block, index bijection, cap, purge, historical info; non-trivial = >=1 add, >=1 remove and >=2 non-empty update batches",
		QuickRuns: 2500, QuickSecs: 75, ThoroughRuns: 40000, ThoroughSecs: 700,
		RequiredProbes: []string{"reject.addval.cap", "reject.addval.key-exists", "validators.updates-returned"}})

	c14 := &l2Profile{Prop: "C14", Reimport: 2, Blocks: [2]int{10, 40}, MaxTx: 4, Crash: 12, Plans: true,
		W:       map[string]int{"addval": 25, "rmval": 15, "params": 12, "relay": 10, "send": 2},
		NonTriv: func(w *l2World) bool { return w.r.Probes["plan.applied"] >= 1 }}
	core.Register(&core.Scenario{ID: "C14", Level: "exploration", Run: runL2(c14), Components: l2Components, Assumptions: append(append([]string{}, l2Assume...), "executor-change plans live in keeper memory; the harness re-registers them after every restart as an application constructor would"),
		Rule:      "as C13 plus executor-change plans over {fresh / known operator} x {fresh / used consensus key} x executor lists and malformed plans, registered at heights before, at and after other validator operations and under every max-validator setting, with node restarts between registration and the plan height; oracle: at the end of the plan block the engine set is exactly the plan's validator, state agrees, executors are the plan's list and block processing does not fail; malformed registrations fail without side effects; non-trivial = >=1 plan applied",
		QuickRuns: 2500, QuickSecs: 75, ThoroughRuns: 40000, ThoroughSecs: 700,
		RequiredProbes: []string{"plan.applied", "plan.malformed-rejected"}})
}

func init() {
	c07 := &l2Profile{Prop: "C07", Reimport: 2, Blocks: [2]int{0, 8}, MaxTx: 4, Hooks: 70, BadRcpt: 30,
		W: map[string]int{"relay": 50, "relaybatch": 5, "withdraw": 10, "send": 15, "params": 6}}
	core.Register(&core.Scenario{ID: "C07", Level: "fault_enumeration", Run: runC07(c07), Components: l2Components,
		Assumptions: []string{"outer tx signatures are not verified; the signer is the declared signer field", "hook payloads carry real secp256k1 signatures checked by the real SDK decorators", "module accounts exist from genesis (DESIGN: observations outside the listed properties)"},
		Rule:        "per run: a seeded warm-up history, then 1-3 deposits drawn from recipient {valid, fresh, malformed, blocked module account} x amount {0, typical, 2^63, 2^64-1, 2^64} x payload {none, garbage, well-signed succeeding, well-signed failing at message k, bad signature, future sequence, 150-transfer gas hog, unroutable message}; each deposit is executed fault-free on a fork of the world while the calls through the bank / account-keeper seams and the hook-target message server are recorded, then re-executed from the same state once per (call index x {error, panic}); an evaluation is one faulted execution whose fault fired; distinct = (deposit class, call site, fault kind); non-trivial = at least 2 fault variants executed",
		QuickRuns:   1000, QuickSecs: 75, ThoroughRuns: 20000, ThoroughSecs: 800,
		RequiredProbes: []string{"c07.site.contained.MintCoins.err", "c07.site.contained.MintCoins.panic", "c07.site.contained.SendCoinsFromModuleToAccount.panic", "c07.site.contained.MsgSend.panic", "c07.site.outside.BurnCoins.err", "c07.gas-bound-checked"}})
}

func init() {
	// C12: authorisation on both chains; each run picks one chain.
	c12l1 := &l1Profile{Prop: "C12", Reimport: 2, Blocks: [2]int{12, 50}, MaxTx: 5, Crash: 4, Periods: []time.Duration{time.Second, 10 * time.Second, time.Hour}, RegFee: true,
		W:       map[string]int{"create": 8, "deposit": 4, "propose": 14, "delete": 12, "claim": 4, "updProposer": 16, "updChallenger": 16, "batchInfo": 10, "metadata": 8, "oracleCfg": 8, "params": 6, "recordBatch": 2},
		NonTriv: func(w *l1World) bool { return w.succ["updProposer"]+w.succ["updChallenger"] >= 2 }}
	c12l2 := &l2Profile{Prop: "C12", Reimport: 2, Blocks: [2]int{12, 50}, MaxTx: 5, Crash: 4, Hooks: 15, BadRcpt: 5, Plans: true,
		W:       map[string]int{"relay": 12, "withdraw": 3, "send": 3, "addval": 12, "rmval": 8, "params": 18, "spend": 8, "bridgeinfo": 14, "exec": 22},
		NonTriv: func(w *l2World) bool { return w.succ["params"]+w.succ["exec"] >= 2 }}
	l1run, l2run := runL1(c12l1), runL2(c12l2)
	comp := map[string]string{}
	for k, v := range l1Components {
		comp["L1: "+k] = v
	}
	for k, v := range l2Components {
		comp["L2: "+k] = v
	}
	core.Register(&core.Scenario{ID: "C12", Level: "exploration", Components: comp,
		Run: func(r *core.Run) *core.Violation {
			if r.Intn(2) == 0 {
				r.Logf("C12 on L1")
				return l1run(r)
			}
			r.Logf("C12 on L2")
			return l2run(r)
		},
		Assumptions: []string{"the authenticated signer of a message is its annotated signer field (no outer signature verification)", "single block proposer", "MsgUpdateOracle's executor / oracle-flag guard is exercised by the C15 scenario"},
		Rule:        "every permissioned message type of both modules is sent by signers drawn from current and past role holders, governance / module authority, the admin and strangers, in states reached by role rotations, parameter and executor-list changes (same block and across blocks), including MsgExecuteMessages batches mixing authority-signed and foreign-signed inner messages with failing tails and MsgSetBridgeInfo re-pointing attempts; oracle: access table written from the property text (soundness and, for valid arguments, completeness), rejected messages change nothing, batches are all-or-nothing; non-trivial = >=2 successful role / parameter changes",
		QuickRuns:   2500, QuickSecs: 75, ThoroughRuns: 50000, ThoroughSecs: 700,
		RequiredProbes: []string{"reject.auth.propose", "reject.auth.delete", "reject.auth.update-proposer", "reject.auth.update-challenger", "reject.auth.update-batch-info", "reject.auth.update-metadata", "reject.auth.update-oracle-config", "reject.auth.update-params",
			"reject.auth.finalize-deposit", "reject.auth.set-bridge-info", "reject.auth.execute-messages", "reject.exec.inner-signer", "reject.bridgeinfo.repoint", "reject.auth.add-validator", "reject.auth.spend-fee-pool"}})
}

func init() {
	comp := map[string]string{}
	for k, v := range l2Components {
		comp[k] = v
	}
	comp["connect vote-extension / extended-commit codecs, vote aggregator, stake-weighted median"] = "real (dependencies the module instantiates)"
	comp["L1 validators"] = "stub: 5-9 ed25519 keys signing real CanonicalVoteExtension bytes"
	comp["oracle relayer"] = "stub: Byzantine actor assembling extended commits"
	comp["IBC light-client update path"] = "stub: block-level input applied in PreBlock through Keeper.UpdateHostValidatorSet"
	core.Register(&core.Scenario{ID: "C15", Level: "exploration", Run: runC15, Components: comp,
		Assumptions: []string{"the IBC client update path is represented by a block-level input calling Keeper.UpdateHostValidatorSet", "outer tx signatures are not verified; vote-extension signatures are real ed25519 signatures"},
		Rule:        "histories interleaving validator-set refreshes (higher / equal / lower height, configured / foreign / empty client id), admin traffic (oracle flag, executor rotation) and oracle updates assembled by a Byzantine relayer from really signed vote extensions: dropped votes, signatures bound to another chain id / height / round, forged / truncated / swapped signatures, absent and nil votes with or without extensions, duplicated entries with attacker prices, repeated votes, unknown validators with huge claimed power, stale timestamps, heights older than the recorded set, replays of earlier payloads, non-executor senders; oracle: independent recount (2/3 of the recorded power among distinct validators with valid signatures per changed pair, new price within the signed votes, strictly increasing timestamps, failed updates change nothing, honest full-quorum updates apply); non-trivial = >=1 accepted and >=1 rejected update",
		QuickRuns:   2000, QuickSecs: 75, ThoroughRuns: 30000, ThoroughSecs: 700,
		RequiredProbes: []string{"oracle.accepted", "oracle.rejected", "oracle.honest-update-applied", "oracle.prices-changed"}})
}

func init() {
	comp := map[string]string{}
	for k, v := range l2Components {
		comp[k] = v
	}
	comp["opchild/ante MempoolFeeChecker + RedundantBridgeDecorator inside the real SDK DeductFeeDecorator chain"] = "real"
	comp["opchild/lanes match handlers"] = "real (called on decoded transactions with a committed-state context)"
	comp["mempool"] = "stub: per-node list; admission and re-admission through the real CheckTx (New / Recheck)"
	core.Register(&core.Scenario{ID: "C20", Level: "exploration", Run: runC20, Components: comp,
		Assumptions: []string{"2-3 L2 nodes share one genesis and execute the same blocks; each has its own node-local min-gas-prices", "fee grants are not wired (granter only matters to the free-lane matcher)", "the degenerate gas = 0 corner is left unconstrained"},
		Rule:        "transaction life-cycle on 2-3 L2 nodes with different node-local min gas prices while the chain's MinGasPrices / FeeWhitelist change through admin messages: random gas limits, fee coin sets built just below / at / above ceil(gas x max(node, chain)) per denom plus unpriced denoms, relay transactions made of stale / fresh / mixed / ahead / unauthorised deposit finalisations, CheckTx(New), ReCheckTx of every mempool after every block, simulate, and direct proposal of unchecked transactions; lane match handlers on 12 message-list shapes x payer / granter / whitelist combinations; oracle: fee arithmetic in exact rationals, shape and whitelist predicates, a sequential model of the check-state deposit counter; non-trivial = >=1 rejection below the floor and >=1 admission at the floor",
		QuickRuns:   2000, QuickSecs: 75, ThoroughRuns: 30000, ThoroughSecs: 700,
		RequiredProbes: []string{"fee.rejected-below-floor", "fee.admitted-at-floor", "redundancy.stale-only-rejected", "redundancy.fresh-admitted", "redundancy.simulate-not-filtered", "lane.checked", "lane.free-matched", "deliver.unchecked-txs-proposed"}})
}
