package scen

import (
	"bytes"
	"encoding/hex"
	"fmt"
	"math/big"
	"sort"
	"strings"

	abci "github.com/cometbft/cometbft/abci/types"
	sdk "github.com/cosmos/cosmos-sdk/types"
	"github.com/cosmos/cosmos-sdk/types/query"
	authtypes "github.com/cosmos/cosmos-sdk/x/auth/types"
	banktypes "github.com/cosmos/cosmos-sdk/x/bank/types"
	oracletypes "github.com/skip-mev/connect/v2/x/oracle/types"

	opchildtypes "github.com/initia-labs/OPinit/x/opchild/types"

	"opsim/core"
	"opsim/node"
)

var ownL2Ledger = []string{"C09", "C07", "C06", "C08"}

// endOfBlock: engine update, model end-block, and the full state comparison.
func (w *l2World) endOfBlock(bc blockCtx, res *abci.ResponseFinalizeBlock, anySuccess bool) *core.Violation {
	ctx := w.n.QueryCtx()
	// resync hook signer sequences (consumption is allowed, not required)
	for _, lbl := range w.keyed {
		if acc := w.n.AK.GetAccount(ctx, node.KeyAddr(lbl)); acc != nil {
			w.m.AcctSeq[lbl] = acc.GetSequence()
		}
		delete(w.m.SeqUnsure, lbl)
	}
	// --- consensus engine: every returned batch must be acceptable (C13/C14)
	before := w.eng.Powers()
	if err := w.eng.Apply(res.ValidatorUpdates); err != nil {
		key := "engine-rejects-batch"
		if pl, ok := w.planAt[uint64(bc.Height)]; ok {
			key = "plan/" + w.classifyPlan(pl)
		}
		return w.fail(mismatch{"engine.batch-rejected", key, []string{"C13", "C14"}, fmt.Sprintf("the consensus engine rejects the validator updates of block %d (%s): %v", bc.Height, fmtUpdates(res.ValidatorUpdates), err)})
	}
	_ = before
	// plan (C14)
	plan := w.planAt[uint64(bc.Height)]
	w.planClass = ""
	if plan != nil {
		// classify the plan against the validator set it meets (the finding key names the input class)
		cls := w.classifyPlan(plan)
		w.planClass = cls
		w.r.Probe("plan.fired." + cls)
		w.applyPlanToModel(plan)
	}
	want := w.m.endBlock()
	if len(res.ValidatorUpdates) > 0 {
		w.r.Probe("validators.updates-returned")
	}
	// --- state validators
	vres, err := w.n.Querier().Validators(ctx, &opchildtypes.QueryValidatorsRequest{Pagination: &query.PageRequest{Limit: 1000}})
	if err != nil {
		return w.fail(mismatch{"query.validators", "validators-query", ownL2Val, "Validators query failed: " + err.Error()})
	}
	statePos := map[string]int64{}
	for _, v := range vres.Validators {
		pk, err := v.ConsPubKey()
		if err != nil {
			return w.fail(mismatch{"state.validator-key", "validator-key", ownL2Val, "stored validator without a usable key"})
		}
		if v.ConsPower > 0 {
			statePos[hex.EncodeToString(pk.Bytes())] = v.ConsPower
		} else {
			key := "zero-power-validator-not-purged"
			return w.fail(mismatch{"validators.removed-still-in-state", key, []string{"C13"}, fmt.Sprintf("validator %s has power 0 but is still in state after block %d", v.OperatorAddress, bc.Height)})
		}
		// index bijection
		ca, _ := v.GetConsAddr()
		if v2, found := w.n.OK.GetValidatorByConsAddr(ctx, ca); !found || v2.OperatorAddress != v.OperatorAddress {
			return w.fail(mismatch{"validators.index", "cons-index-mismatch", ownL2Val, fmt.Sprintf("consensus-key index does not lead back to validator %s", v.OperatorAddress)})
		}
		if q, err := w.n.Querier().Validator(ctx, &opchildtypes.QueryValidatorRequest{ValidatorAddr: v.OperatorAddress}); err != nil || q.Validator.OperatorAddress != v.OperatorAddress {
			return w.fail(mismatch{"validators.index", "validator-query", ownL2Val, "Validator query does not return " + v.OperatorAddress})
		}
	}
	nIdx := 0
	_ = w.n.OK.ValidatorsByConsAddr.Walk(ctx, nil, func(k, v []byte) (bool, error) { nIdx++; return false, nil })
	if nIdx != len(vres.Validators) {
		return w.fail(mismatch{"validators.index", "cons-index-size", ownL2Val, fmt.Sprintf("%d consensus-key index entries for %d validators", nIdx, len(vres.Validators))})
	}
	eng := w.eng.Powers()
	if d := diffPowers(eng, statePos); d != "" {
		key := "engine-state-diverge"
		if plan != nil {
			key = "plan-engine-state-diverge"
		}
		return w.fail(mismatch{"validators.engine-vs-state", key, []string{"C13", "C14"}, fmt.Sprintf("after block %d the consensus engine's set differs from the positive-power validators in state: %s", bc.Height, d)})
	}
	// last powers
	gs := w.n.OK.ExportGenesis(ctx)
	last := map[string]int64{}
	for _, lp := range gs.LastValidatorPowers {
		for _, v := range vres.Validators {
			if strings.EqualFold(v.OperatorAddress, lp.Address) { // the stored spelling may be the upper-case form
				pk, _ := v.ConsPubKey()
				last[hex.EncodeToString(pk.Bytes())] = lp.Power
			}
		}
	}
	if len(gs.LastValidatorPowers) != len(last) {
		return w.fail(mismatch{"validators.last-powers", "last-powers-dangling", ownL2Val, "a last-validator-power record has no validator"})
	}
	if d := diffPowers(eng, last); d != "" {
		return w.fail(mismatch{"validators.last-powers", "last-powers-diverge", ownL2Val, "recorded last-validator powers differ from the engine set: " + d})
	}
	if d := diffPowers(want, statePos); d != "" {
		key := "validator-model-mismatch"
		if plan != nil {
			key = "plan-state-mismatch"
		}
		return w.fail(mismatch{"validators.model", key, []string{"C13", "C14"}, "validators in state differ from the reference model: " + d})
	}
	if len(statePos) > int(gs.Params.MaxValidators) {
		return w.fail(mismatch{"validators.over-cap", "bonded-over-max", ownL2Val, fmt.Sprintf("%d bonded validators, max %d", len(statePos), gs.Params.MaxValidators)})
	}
	if plan != nil {
		// exactly the plan's validator with power 1, executors replaced
		pv := map[string]int64{hex.EncodeToString(node.ValKey(w.planKey[plan.Height]).PubKey().Bytes()): 1}
		if d := diffPowers(pv, eng); d != "" {
			return w.fail(mismatch{"plan.engine-set", "plan-engine-set", []string{"C14"}, fmt.Sprintf("at plan height %d the engine set is not exactly the plan's validator: %s", bc.Height, d)})
		}
		if fmt.Sprint(gs.Params.BridgeExecutors) != fmt.Sprint(plan.NextExecutors) {
			return w.fail(mismatch{"plan.executors", "plan-executors", []string{"C14", "C12"}, fmt.Sprintf("bridge executors after plan: %v, want %v", gs.Params.BridgeExecutors, plan.NextExecutors)})
		}
		w.r.Probe("plan.applied")
	}
	// --- historical info (retention evaluated with the entries parameter in force at BeginBlock)
	if v := w.checkHistory(ctx, bc); v != nil {
		return v
	}
	// --- a refused deposit leaves nothing behind, not even an account at the refused address
	for a := range w.m.Blocked {
		acc := w.n.AK.GetAccount(ctx, sdk.AccAddress(a))
		if _, isMod := acc.(sdk.ModuleAccountI); acc != nil && !isMod && !w.m.MayPlain[a] {
			return w.fail(mismatch{"l2deposit.residue", "account-left-at-refused-address", []string{"C07"}, fmt.Sprintf("a plain account exists at the blocked address %s although nothing but refused (refunded) deposits ever named it", sdk.AccAddress(a))})
		}
	}
	// --- ledger and supply
	seen := map[string]bool{}
	for _, bal := range w.n.BK.GetAccountsBalances(ctx) {
		addr, _ := sdk.AccAddressFromBech32(bal.Address)
		seen[string(addr)] = true
		for _, c := range bal.Coins {
			if w.m.Bal.get(addr, c.Denom).Cmp(c.Amount.BigInt()) != 0 {
				return w.fail(mismatch{"ledger.mismatch", "l2-ledger", ownL2Ledger, fmt.Sprintf("L2 account %s holds %s, model says %s", bal.Address, c, w.m.Bal.get(addr, c.Denom))})
			}
		}
		for d, v := range w.m.Bal[string(addr)] {
			if v.Sign() != 0 && bal.Coins.AmountOf(d).BigInt().Cmp(v) != 0 {
				return w.fail(mismatch{"ledger.mismatch", "l2-ledger", ownL2Ledger, fmt.Sprintf("L2 account %s holds %s%s, model says %s", bal.Address, bal.Coins.AmountOf(d), d, v)})
			}
		}
	}
	for a, mp := range w.m.Bal {
		if !seen[a] && len(mp) > 0 {
			return w.fail(mismatch{"ledger.mismatch", "l2-ledger", ownL2Ledger, fmt.Sprintf("L2 account %x holds nothing on chain, model says %v", a, mp)})
		}
	}
	sup, _, err := w.n.BK.GetPaginatedTotalSupply(ctx, &query.PageRequest{Limit: 1000})
	if err != nil {
		panic(err)
	}
	for _, c := range sup {
		ms := w.m.Supply[c.Denom]
		if ms == nil {
			ms = new(big.Int)
		}
		if ms.Cmp(c.Amount.BigInt()) != 0 {
			return w.fail(mismatch{"supply.mismatch", "l2-supply", ownL2Ledger, fmt.Sprintf("supply of %s is %s, model says %s", c.Denom, c.Amount, ms)})
		}
	}
	for d, ms := range w.m.Supply {
		if ms.Sign() != 0 && sup.AmountOf(d).BigInt().Cmp(ms) != 0 {
			return w.fail(mismatch{"supply.mismatch", "l2-supply", ownL2Ledger, fmt.Sprintf("supply of %s is %s, model says %s", d, sup.AmountOf(d), ms)})
		}
	}
	// C09: supply of every bridged denom = credited - recorded withdrawals
	for d := range w.m.Pairs {
		cr, wd := w.m.Credited[d], w.m.Withdrawn[d]
		if cr == nil {
			cr = new(big.Int)
		}
		if wd == nil {
			wd = new(big.Int)
		}
		if new(big.Int).Sub(cr, wd).Cmp(sup.AmountOf(d).BigInt()) != 0 {
			return w.fail(mismatch{"supply.conservation", "bridged-supply-conservation", []string{"C09", "C08"}, fmt.Sprintf("supply(%s)=%s but credited-withdrawn=%s", d, sup.AmountOf(d), new(big.Int).Sub(cr, wd))})
		}
	}
	// --- sequences, denom pairs, params, bridge info: queries and export
	q := w.n.Querier()
	if r1, err := q.NextL1Sequence(ctx, &opchildtypes.QueryNextL1SequenceRequest{}); err != nil || r1.NextL1Sequence != w.m.NextL1Seq || gs.NextL1Sequence != w.m.NextL1Seq {
		return w.fail(mismatch{"state.next-l1-sequence", "l2-next-l1-sequence", []string{"C06", "C08", "C16"}, fmt.Sprintf("NextL1Sequence query=%v export=%d model=%d", r1, gs.NextL1Sequence, w.m.NextL1Seq)})
	}
	if r2, err := q.NextL2Sequence(ctx, &opchildtypes.QueryNextL2SequenceRequest{}); err != nil || r2.NextL2Sequence != w.m.NextL2Seq || gs.NextL2Sequence != w.m.NextL2Seq {
		return w.fail(mismatch{"state.next-l2-sequence", "l2-next-l2-sequence", []string{"C09", "C07", "C08", "C16"}, fmt.Sprintf("NextL2Sequence query=%v export=%d model=%d", r2, gs.NextL2Sequence, w.m.NextL2Seq)})
	}
	if len(gs.DenomPairs) != len(w.m.Pairs) {
		return w.fail(mismatch{"state.denom-pairs", "denom-pairs", []string{"C09", "C16"}, fmt.Sprintf("%d denom pairs, model %d", len(gs.DenomPairs), len(w.m.Pairs))})
	}
	for _, dp := range gs.DenomPairs {
		if w.m.Pairs[dp.Denom] != dp.BaseDenom {
			return w.fail(mismatch{"state.denom-pairs", "denom-pair-changed", []string{"C09", "C16"}, fmt.Sprintf("denom pair %s -> %s, model (first deposit) says %s", dp.Denom, dp.BaseDenom, w.m.Pairs[dp.Denom])})
		}
		if rb, err := q.BaseDenom(ctx, &opchildtypes.QueryBaseDenomRequest{Denom: dp.Denom}); err != nil || rb.BaseDenom != dp.BaseDenom {
			return w.fail(mismatch{"query.base-denom", "base-denom-query", []string{"C09"}, "BaseDenom query disagrees"})
		}
	}
	if _, err := q.BaseDenom(ctx, &opchildtypes.QueryBaseDenomRequest{Denom: "umin"}); err == nil {
		return w.fail(mismatch{"query.base-denom", "base-denom-for-native", []string{"C09"}, "BaseDenom answers for the native denom"})
	}
	mp := w.m.Params
	if gs.Params.Admin != mp.Admin || fmt.Sprint(gs.Params.BridgeExecutors) != fmt.Sprint(mp.BridgeExecutors) || gs.Params.MaxValidators != mp.MaxValidators ||
		gs.Params.HistoricalEntries != mp.HistoricalEntries || gs.Params.HookMaxGas != mp.HookMaxGas || !gs.Params.MinGasPrices.Equal(mp.MinGasPrices) || fmt.Sprint(gs.Params.FeeWhitelist) != fmt.Sprint(mp.FeeWhitelist) {
		return w.fail(mismatch{"state.params", "l2-params", []string{"C12", "C14", "C16"}, fmt.Sprintf("params on chain %+v differ from model %+v", gs.Params, mp)})
	}
	if (gs.BridgeInfo == nil) != (w.m.Bridge == nil) {
		return w.fail(mismatch{"state.bridge-info", "bridge-info", []string{"C12", "C16"}, "bridge info presence differs from model"})
	}
	if gs.BridgeInfo != nil {
		a, b := gs.BridgeInfo, w.m.Bridge
		if a.BridgeId != b.BridgeId || a.BridgeAddr != b.BridgeAddr || a.L1ChainId != b.L1ChainId || a.L1ClientId != b.L1ClientId || a.BridgeConfig.OracleEnabled != b.BridgeConfig.OracleEnabled || a.BridgeConfig.Proposer != b.BridgeConfig.Proposer {
			return w.fail(mismatch{"state.bridge-info", "bridge-info", []string{"C12", "C16"}, fmt.Sprintf("bridge info %+v differs from model %+v", a, b)})
		}
	}
	// --- nothing succeeded => bank / opchild / oracle stores unchanged (auth may move: hook signer sequences)
	for _, name := range []string{banktypes.StoreKey, opchildtypes.StoreKey, oracletypes.StoreKey} {
		d := node.StoreDigest(ctx, w.n.Keys[name])
		if name == opchildtypes.StoreKey {
			continue // historical info is written every block
		}
		if prev, ok := w.prevDig[name]; ok && !anySuccess && prev != d {
			return w.fail(mismatch{"atomic.store-changed", "store-changed-without-success:" + name, []string{w.p.Prop}, "store " + name + " changed in a block in which no transaction succeeded"})
		}
		w.prevDig[name] = d
	}
	_ = authtypes.ModuleName
	w.r.Mark(fmt.Sprintf("v%d/s%d", len(statePos), w.m.NextL1Seq%4))
	return nil
}

func fmtUpdates(us []abci.ValidatorUpdate) string {
	s := ""
	for _, u := range us {
		s += fmt.Sprintf("[%x..=%d]", pkBytes(u.PubKey)[:4], u.Power)
	}
	return s
}

func diffPowers(a, b map[string]int64) string {
	keys := map[string]bool{}
	for k := range a {
		keys[k] = true
	}
	for k := range b {
		keys[k] = true
	}
	ks := make([]string, 0, len(keys))
	for k := range keys {
		ks = append(ks, k)
	}
	sort.Strings(ks)
	out := ""
	for _, k := range ks {
		if a[k] != b[k] {
			out += fmt.Sprintf(" key %s..: %d vs %d;", k[:8], a[k], b[k])
		}
	}
	return out
}

// checkHistory: HistoricalInfo(h) lists exactly the set bonded at the start of
// h and only heights within the retention window exist.
func (w *l2World) checkHistory(ctx sdk.Context, bc blockCtx) *core.Violation {
	if w.m.HistQuirk {
		return nil
	}
	entries := int64(w.histEntriesAtBegin)
	H := bc.Height
	for h := H - 8; h <= H; h++ {
		if h < 1 {
			continue
		}
		hi, err := w.n.OK.GetHistoricalInfo(ctx, h)
		shouldExist := w.histWritten[h]
		if err != nil {
			if shouldExist {
				return w.fail(mismatch{"history.missing", "historical-info-missing", []string{"C13"}, fmt.Sprintf("HistoricalInfo(%d) missing at height %d with retention %d", h, H, entries)})
			}
			continue
		}
		if !shouldExist {
			return w.fail(mismatch{"history.not-pruned", "historical-info-not-pruned", []string{"C13"}, fmt.Sprintf("HistoricalInfo(%d) still stored at height %d with retention %d", h, H, entries)})
		}
		want := w.hist[h]
		got := map[string]int64{}
		for _, v := range hi.Valset {
			pk, err := v.ConsPubKey()
			if err != nil {
				continue
			}
			got[hex.EncodeToString(pk.Bytes())] = v.Tokens.Quo(sdk.DefaultPowerReduction).Int64()
		}
		if want != nil {
			if d := diffPowers(want, got); d != "" {
				return w.fail(mismatch{"history.content", "historical-info-content", []string{"C13"}, fmt.Sprintf("HistoricalInfo(%d) does not list the set bonded at the start of that block: %s", h, d)})
			}
		}
	}
	return nil
}

var _ = bytes.Equal
