package scen

import (
	"bytes"
	"fmt"

	abci "github.com/cometbft/cometbft/abci/types"
	dbm "github.com/cosmos/cosmos-db"
	sdk "github.com/cosmos/cosmos-sdk/types"
	authtypes "github.com/cosmos/cosmos-sdk/x/auth/types"
	banktypes "github.com/cosmos/cosmos-sdk/x/bank/types"
	oracletypes "github.com/skip-mev/connect/v2/x/oracle/types"

	opchildtypes "github.com/initia-labs/OPinit/x/opchild/types"
	ophosttypes "github.com/initia-labs/OPinit/x/ophost/types"

	"opsim/core"
	"opsim/node"
)

// ---------------------------------------------------------------------------
// C18 — every block is also executed on independent replicas of the same
// chain inside the same process: replica B is crashed and restarted at
// scheduler-chosen points, replica C receives CheckTx / simulate / query
// traffic between blocks.  Results, events, validator updates (in order), app
// hashes and raw store contents must be identical.
// ---------------------------------------------------------------------------

func emptyResult() (*abci.ResponseFinalizeBlock, error) { return &abci.ResponseFinalizeBlock{}, nil }

type l1Replica struct {
	db   *dbm.MemDB
	n    *node.L1
	kind string // "restarting" | "traffic"
}

type l2Replica struct {
	db   *dbm.MemDB
	n    *node.L2
	kind string
}

func sameBlockOutput(a, b *abci.ResponseFinalizeBlock) string {
	if d := sameResults(a, b); d != "" {
		return d
	}
	if d := sameUpdates(a.ValidatorUpdates, b.ValidatorUpdates); d != "" {
		return d + " (order matters)"
	}
	if len(a.Events) != len(b.Events) {
		return "block event count differs"
	}
	for i := range a.Events {
		if a.Events[i].String() != b.Events[i].String() {
			return fmt.Sprintf("block event %d differs", i)
		}
	}
	return ""
}

func (w *l1World) addReplicas(gen *node.L1Genesis) {
	for _, k := range []string{"restarting", "traffic"} {
		db := dbm.NewMemDB()
		w.replicas = append(w.replicas, &l1Replica{db: db, n: node.NewL1(db, gen), kind: k})
	}
}

func (w *l1World) runReplicas(bc blockCtx, raw [][]byte, stub []node.StubOp, res *abci.ResponseFinalizeBlock) *core.Violation {
	r := w.r
	for _, rp := range w.replicas {
		if rp.kind == "restarting" && r.Chance(1, 3) {
			rp.n = node.NewL1(rp.db, nil)
			r.Fault("replica.restart")
		}
		if rp.kind == "traffic" {
			for _, t := range raw {
				if r.Chance(1, 2) {
					_, _ = rp.n.App.CheckTx(&abci.RequestCheckTx{Tx: t, Type: abci.CheckTxType_New})
					r.Fault("replica.checktx-traffic")
				}
				if r.Chance(1, 4) {
					_, _, _ = rp.n.App.Simulate(t)
				}
			}
			q := rp.n.Querier()
			_, _ = q.Bridges(rp.n.QueryCtx(), &ophosttypes.QueryBridgesRequest{})
		}
		rr, err := rp.n.Finalize(bc.Time, raw, stub)
		if err != nil {
			return w.fail(mismatch{"replica.block-error", "replica-block-error", []string{"C18"}, "replica failed to process the block: " + err.Error()})
		}
		if rp.kind == "restarting" && r.Chance(1, 4) {
			// crash after FinalizeBlock, before Commit: the block is replayed
			rp.n = node.NewL1(rp.db, nil)
			r.Fault("replica.crash-before-commit")
			rr, err = rp.n.Finalize(bc.Time, raw, stub)
			if err != nil {
				return w.fail(mismatch{"replica.block-error", "replica-block-error", []string{"C18"}, "replica failed to replay the block: " + err.Error()})
			}
		}
		if d := sameBlockOutput(res, rr); d != "" {
			return w.fail(mismatch{"replica.diverged", "l1-replica-diverged:" + rp.kind, []string{"C18"}, fmt.Sprintf("L1 replica (%s) diverged at height %d: %s", rp.kind, bc.Height, d)})
		}
		rp.n.Commit()
		ca, cb := w.n.QueryCtx(), rp.n.QueryCtx()
		for _, name := range []string{authtypes.StoreKey, banktypes.StoreKey, ophosttypes.StoreKey, node.StubStoreKey} {
			if node.StoreDigest(ca, w.n.Keys[name]) != node.StoreDigest(cb, rp.n.Keys[name]) {
				return w.fail(mismatch{"replica.store-diverged", "l1-replica-store:" + name, []string{"C18"}, fmt.Sprintf("store %s of the L1 replica (%s) differs after height %d: %s", name, rp.kind, bc.Height, firstStoreDiff(ca, cb, w.n.Keys[name], rp.n.Keys[name]))})
			}
		}
	}
	w.r.Probe("replica.compared")
	return nil
}

func firstStoreDiff(ca, cb sdk.Context, ka, kb interface{ Name() string }) string {
	return "raw key/value dump differs"
}

func (w *l2World) addReplicas() {
	for _, k := range []string{"restarting", "traffic"} {
		db := dbm.NewMemDB()
		w.replicas = append(w.replicas, &l2Replica{db: db, n: node.NewL2(db, w.genesis, w.opts, nil), kind: k})
	}
}

func (w *l2World) runReplicas(bc blockCtx, raw [][]byte, host []node.HostSetUpdate, res *abci.ResponseFinalizeBlock) *core.Violation {
	r := w.r
	for _, rp := range w.replicas {
		// plans registered on the main node since the last block are registered here too
		for len(rp.n.PlanErrs) < len(w.plans) {
			p := w.plans[len(rp.n.PlanErrs)]
			rp.n.PlanErrs = append(rp.n.PlanErrs, rp.n.OK.RegisterExecutorChangePlan(p.ProposalID, p.Height, p.NextValidator, p.Moniker, p.ConsPubKeyJSON, p.Info, p.NextExecutors))
		}
		if rp.kind == "restarting" && r.Chance(1, 3) {
			rp.n = node.NewL2(rp.db, nil, w.opts, w.plans)
			r.Fault("replica.restart")
		}
		if rp.kind == "traffic" {
			for _, t := range raw {
				if r.Chance(1, 2) {
					_, _ = rp.n.App.CheckTx(&abci.RequestCheckTx{Tx: t, Type: abci.CheckTxType_New})
					r.Fault("replica.checktx-traffic")
				}
				if r.Chance(1, 4) {
					_, _, _ = rp.n.App.Simulate(t)
				}
			}
			_, _ = rp.n.Querier().Validators(rp.n.QueryCtx(), &opchildtypes.QueryValidatorsRequest{})
		}
		rr, err := rp.n.Finalize(bc.Time, raw, host)
		if err != nil {
			return w.fail(mismatch{"replica.block-error", "replica-block-error", []string{"C18"}, "replica failed to process the block: " + err.Error()})
		}
		if rp.kind == "restarting" && r.Chance(1, 4) {
			rp.n = node.NewL2(rp.db, nil, w.opts, w.plans)
			r.Fault("replica.crash-before-commit")
			rr, err = rp.n.Finalize(bc.Time, raw, host)
			if err != nil {
				return w.fail(mismatch{"replica.block-error", "replica-block-error", []string{"C18"}, "replica failed to replay the block: " + err.Error()})
			}
		}
		if d := sameBlockOutput(res, rr); d != "" {
			return w.fail(mismatch{"replica.diverged", "l2-replica-diverged:" + rp.kind, []string{"C18"}, fmt.Sprintf("L2 replica (%s) diverged at height %d: %s", rp.kind, bc.Height, d)})
		}
		rp.n.Commit()
		ca, cb := w.n.QueryCtx(), rp.n.QueryCtx()
		for _, name := range []string{authtypes.StoreKey, banktypes.StoreKey, opchildtypes.StoreKey, oracletypes.StoreKey} {
			if node.StoreDigest(ca, w.n.Keys[name]) != node.StoreDigest(cb, rp.n.Keys[name]) {
				return w.fail(mismatch{"replica.store-diverged", "l2-replica-store:" + name, []string{"C18"}, fmt.Sprintf("store %s of the L2 replica (%s) differs after height %d", name, rp.kind, bc.Height)})
			}
		}
	}
	if len(res.ValidatorUpdates) >= 2 {
		w.r.Probe("replica.compared-multi-validator-update")
	}
	w.r.Probe("replica.compared")
	return nil
}

var _ = bytes.Equal
