package scen

import (
	"bytes"
	"fmt"
	"os"
	"strings"
	"sync"
	"time"

	abci "github.com/cometbft/cometbft/abci/types"
	dbm "github.com/cosmos/cosmos-db"
	sdk "github.com/cosmos/cosmos-sdk/types"
	authtypes "github.com/cosmos/cosmos-sdk/x/auth/types"
	banktypes "github.com/cosmos/cosmos-sdk/x/bank/types"
	oracletypes "github.com/skip-mev/connect/v2/x/oracle/types"

	opchildtypes "github.com/initia-labs/OPinit/x/opchild/types"
	ophosttypes "github.com/initia-labs/OPinit/x/ophost/types"

	"opsim/core"
	"opsim/node"
)

// ---------------------------------------------------------------------------
// C18 — every block is also executed on independent replicas of the same
// chain inside the same process: replica B is crashed and restarted at
// scheduler-chosen points, replica C receives CheckTx / simulate / query
// traffic between blocks.  Results, events, validator updates (in order), app
// hashes and raw store contents must be identical.
// ---------------------------------------------------------------------------

func emptyResult() (*abci.ResponseFinalizeBlock, error) { return &abci.ResponseFinalizeBlock{}, nil }

type l1Replica struct {
	db   *dbm.MemDB
	n    *node.L1
	kind string // "restarting" | "traffic"
}

type l2Replica struct {
	db   *dbm.MemDB
	n    *node.L2
	kind string
}

func sameBlockOutput(a, b *abci.ResponseFinalizeBlock) string {
	if d := sameResults(a, b); d != "" {
		return d
	}
	if d := sameUpdates(a.ValidatorUpdates, b.ValidatorUpdates); d != "" {
		return d + " (order matters)"
	}
	if len(a.Events) != len(b.Events) {
		return "block event count differs"
	}
	for i := range a.Events {
		if a.Events[i].String() != b.Events[i].String() {
			return fmt.Sprintf("block event %d differs", i)
		}
	}
	return ""
}

func (w *l1World) addReplicas(gen *node.L1Genesis) {
	for _, k := range []string{"restarting", "traffic"} {
		db := dbm.NewMemDB()
		w.replicas = append(w.replicas, &l1Replica{db: db, n: node.NewL1(db, gen), kind: k})
	}
}

func (w *l1World) runReplicas(bc blockCtx, raw [][]byte, stub []node.StubOp, res *abci.ResponseFinalizeBlock) *core.Violation {
	r := w.r
	for _, rp := range w.replicas {
		if rp.kind == "restarting" && r.Chance(1, 3) {
			rp.n = node.NewL1(rp.db, nil)
			r.Fault("replica.restart")
		}
		if rp.kind == "traffic" {
			for _, t := range raw {
				if r.Chance(1, 2) {
					_, _ = rp.n.App.CheckTx(&abci.RequestCheckTx{Tx: t, Type: abci.CheckTxType_New})
					r.Fault("replica.checktx-traffic")
				}
				if r.Chance(1, 4) {
					_, _, _ = rp.n.App.Simulate(t)
				}
			}
			q := rp.n.Querier()
			_, _ = q.Bridges(rp.n.QueryCtx(), &ophosttypes.QueryBridgesRequest{})
		}
	}
	outs := execReplicas(r, len(w.replicas), func(i int) (*abci.ResponseFinalizeBlock, error) {
		return w.replicas[i].n.Finalize(bc.Time, raw, stub)
	})
	for i, rp := range w.replicas {
		rr, err := outs[i].res, outs[i].err
		if err != nil {
			return w.fail(mismatch{"replica.block-error", "replica-block-error", []string{"C18"}, "replica failed to process the block: " + err.Error()})
		}
		if rp.kind == "restarting" && r.Chance(1, 4) {
			// crash after FinalizeBlock, before Commit: the block is replayed
			rp.n = node.NewL1(rp.db, nil)
			r.Fault("replica.crash-before-commit")
			rr, err = rp.n.Finalize(bc.Time, raw, stub)
			if err != nil {
				return w.fail(mismatch{"replica.block-error", "replica-block-error", []string{"C18"}, "replica failed to replay the block: " + err.Error()})
			}
		}
		if d := sameBlockOutput(res, rr); d != "" {
			return w.fail(mismatch{"replica.diverged", "l1-replica-diverged:" + rp.kind, []string{"C18"}, fmt.Sprintf("L1 replica (%s) diverged at height %d: %s [block: %s]", rp.kind, bc.Height, d, describeTxs(w.enc, raw))})
		}
		if d := sameErrors(res, rr); d != "" {
			return w.fail(mismatch{"replica.error-diverged", "l1-replica-error-text:" + rp.kind, []string{"C18"}, fmt.Sprintf("L1 replica (%s) reported a different error at height %d: %s", rp.kind, bc.Height, d)})
		}
		rp.n.Commit()
		ca, cb := w.n.QueryCtx(), rp.n.QueryCtx()
		for _, name := range []string{authtypes.StoreKey, banktypes.StoreKey, ophosttypes.StoreKey, node.StubStoreKey} {
			if node.StoreDigest(ca, w.n.Keys[name]) != node.StoreDigest(cb, rp.n.Keys[name]) {
				return w.fail(mismatch{"replica.store-diverged", "l1-replica-store:" + name, []string{"C18"}, fmt.Sprintf("store %s of the L1 replica (%s) differs after height %d: %s", name, rp.kind, bc.Height, firstStoreDiff(ca, cb, w.n.Keys[name], rp.n.Keys[name]))})
			}
		}
	}
	if r.Chance(1, 4) {
		// the exported genesis is observable too (and the order of its lists reaches InitChain of a restarted chain)
		st := w.n.ExportAppState()
		for _, rp := range w.replicas {
			if d := diffState(st, rp.n.ExportAppState()); d != "" {
				return w.fail(mismatch{"replica.export-diverged", "l1-replica-export:" + rp.kind, []string{"C18"}, fmt.Sprintf("the exported genesis of the L1 replica (%s) differs after height %d: %s", rp.kind, bc.Height, d)})
			}
		}
	}
	w.r.Probe("replica.compared")
	return nil
}

type replicaOut struct {
	res *abci.ResponseFinalizeBlock
	err error
}

// replica nodes run under another local time zone than the main node (operators do
// not agree on TZ), and in half of the blocks the replicas execute the block at the
// same time on separate OS threads, as independent app instances of one process do:
// nothing they compute may depend on either.
var replicaZones = []*time.Location{time.FixedZone("KST", 9*3600), time.FixedZone("PDT", -7*3600)}

func execReplicas(r *core.Run, n int, exec func(i int) (*abci.ResponseFinalizeBlock, error)) []replicaOut {
	outs := make([]replicaOut, n)
	one := func(i int) {
		defer func() {
			if x := recover(); x != nil {
				outs[i].err = fmt.Errorf("panic: %v", x)
			}
		}()
		outs[i].res, outs[i].err = exec(i)
	}
	saved := time.Local
	defer func() { time.Local = saved }()
	if os.Getenv("OPSIM_NO_TZ") != "" {
		replicaZones = []*time.Location{saved}
	}
	if n > 1 && r.Chance(1, 2) {
		r.Fault("replica.parallel-execution")
		time.Local = replicaZones[0]
		var wg sync.WaitGroup
		for i := 0; i < n; i++ {
			wg.Add(1)
			go func(i int) { defer wg.Done(); one(i) }(i)
		}
		wg.Wait()
		return outs
	}
	r.Fault("replica.time-zone-skew")
	for i := 0; i < n; i++ {
		time.Local = replicaZones[i%len(replicaZones)]
		one(i)
	}
	return outs
}

// sameErrors compares the error texts of failed transactions (a recovered panic's
// stack trace, which carries addresses and goroutine ids, is cut off).
func sameErrors(a, b *abci.ResponseFinalizeBlock) string {
	cut := func(s string) string {
		if i := strings.Index(s, "\nstack:"); i >= 0 {
			return s[:i]
		}
		return s
	}
	for i := range a.TxResults {
		x, y := a.TxResults[i], b.TxResults[i]
		if x.Code != 0 && cut(x.Log) != cut(y.Log) {
			return fmt.Sprintf("tx %d: %q vs %q", i, firstLine(cut(x.Log)), firstLine(cut(y.Log)))
		}
	}
	return ""
}

func firstStoreDiff(ca, cb sdk.Context, ka, kb interface{ Name() string }) string {
	return "raw key/value dump differs"
}

func (w *l2World) addReplicas() {
	for _, k := range []string{"restarting", "traffic"} {
		db := dbm.NewMemDB()
		w.replicas = append(w.replicas, &l2Replica{db: db, n: node.NewL2(db, w.genesis, w.opts, nil), kind: k})
	}
}

func (w *l2World) runReplicas(bc blockCtx, raw [][]byte, host []node.HostSetUpdate, res *abci.ResponseFinalizeBlock) *core.Violation {
	r := w.r
	for _, rp := range w.replicas {
		// plans registered on the main node since the last block are registered here too
		for len(rp.n.PlanErrs) < len(w.plans) {
			p := w.plans[len(rp.n.PlanErrs)]
			rp.n.PlanErrs = append(rp.n.PlanErrs, rp.n.OK.RegisterExecutorChangePlan(p.ProposalID, p.Height, p.NextValidator, p.Moniker, p.ConsPubKeyJSON, p.Info, p.NextExecutors))
		}
		if rp.kind == "restarting" && r.Chance(1, 3) {
			rp.n = node.NewL2(rp.db, nil, w.opts, w.plans)
			r.Fault("replica.restart")
		}
		if rp.kind == "traffic" {
			for _, t := range raw {
				if r.Chance(1, 2) {
					_, _ = rp.n.App.CheckTx(&abci.RequestCheckTx{Tx: t, Type: abci.CheckTxType_New})
					r.Fault("replica.checktx-traffic")
				}
				if r.Chance(1, 4) {
					_, _, _ = rp.n.App.Simulate(t)
				}
			}
			_, _ = rp.n.Querier().Validators(rp.n.QueryCtx(), &opchildtypes.QueryValidatorsRequest{})
		}
	}
	outs := execReplicas(r, len(w.replicas), func(i int) (*abci.ResponseFinalizeBlock, error) {
		return w.replicas[i].n.Finalize(bc.Time, raw, host)
	})
	for i, rp := range w.replicas {
		rr, err := outs[i].res, outs[i].err
		if err != nil {
			return w.fail(mismatch{"replica.block-error", "replica-block-error", []string{"C18"}, "replica failed to process the block: " + err.Error()})
		}
		if rp.kind == "restarting" && r.Chance(1, 4) {
			rp.n = node.NewL2(rp.db, nil, w.opts, w.plans)
			r.Fault("replica.crash-before-commit")
			rr, err = rp.n.Finalize(bc.Time, raw, host)
			if err != nil {
				return w.fail(mismatch{"replica.block-error", "replica-block-error", []string{"C18"}, "replica failed to replay the block: " + err.Error()})
			}
		}
		if d := sameBlockOutput(res, rr); d != "" {
			return w.fail(mismatch{"replica.diverged", "l2-replica-diverged:" + rp.kind, []string{"C18"}, fmt.Sprintf("L2 replica (%s) diverged at height %d: %s [block: %s]", rp.kind, bc.Height, d, describeTxs(w.enc, raw))})
		}
		if d := sameErrors(res, rr); d != "" {
			return w.fail(mismatch{"replica.error-diverged", "l2-replica-error-text:" + rp.kind, []string{"C18"}, fmt.Sprintf("L2 replica (%s) reported a different error at height %d: %s", rp.kind, bc.Height, d)})
		}
		rp.n.Commit()
		ca, cb := w.n.QueryCtx(), rp.n.QueryCtx()
		for _, name := range []string{authtypes.StoreKey, banktypes.StoreKey, opchildtypes.StoreKey, oracletypes.StoreKey} {
			if node.StoreDigest(ca, w.n.Keys[name]) != node.StoreDigest(cb, rp.n.Keys[name]) {
				return w.fail(mismatch{"replica.store-diverged", "l2-replica-store:" + name, []string{"C18"}, fmt.Sprintf("store %s of the L2 replica (%s) differs after height %d", name, rp.kind, bc.Height)})
			}
		}
	}
	if r.Chance(1, 4) {
		st := w.n.ExportAppState()
		for _, rp := range w.replicas {
			if d := diffState(st, rp.n.ExportAppState()); d != "" {
				return w.fail(mismatch{"replica.export-diverged", "l2-replica-export:" + rp.kind, []string{"C18"}, fmt.Sprintf("the exported genesis of the L2 replica (%s) differs after height %d: %s", rp.kind, bc.Height, d)})
			}
		}
	}
	if len(res.ValidatorUpdates) >= 2 {
		w.r.Probe("replica.compared-multi-validator-update")
	}
	w.r.Probe("replica.compared")
	return nil
}

var _ = bytes.Equal

// describeTxs names the message types of a block's transactions (for reports).
func describeTxs(enc node.Encoding, raw [][]byte) string {
	var out []string
	for _, bz := range raw {
		tx, err := enc.TxConfig.TxDecoder()(bz)
		if err != nil {
			out = append(out, "undecodable")
			continue
		}
		var ms []string
		for _, m := range tx.GetMsgs() {
			ms = append(ms, sdk.MsgTypeURL(m))
		}
		memo := ""
		if mt, ok := tx.(sdk.TxWithMemo); ok && mt.GetMemo() != "" {
			memo = " memo=" + firstLine(mt.GetMemo())
			if len(memo) > 60 {
				memo = memo[:60] + "..."
			}
		}
		out = append(out, strings.Join(ms, "+")+memo)
	}
	return strings.Join(out, "; ")
}
