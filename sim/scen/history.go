package scen

import (
	"fmt"
	"time"

	"github.com/anishathalye/porcupine"
	sdk "github.com/cosmos/cosmos-sdk/types"

	opchildtypes "github.com/initia-labs/OPinit/x/opchild/types"
	ophosttypes "github.com/initia-labs/OPinit/x/ophost/types"

	"opsim/core"
)

// ---------------------------------------------------------------------------
// Second opinion that does not depend on the harness knowing the block order:
// the client-visible history of the two-chain world (invoke = global event
// number at which an actor handed the message to the network, return = event
// number at which its block result became visible) is checked for
// linearizability with porcupine against two tiny sequential models:
//   relays  -> an in-order counter (C06)
//   claims  -> a set of paid withdrawals (C02)
// Messages that were dropped by the network or refused by the mempool have no
// return event and no effect; they are not part of the history.
// ---------------------------------------------------------------------------

type histOp struct {
	Call, Ret int64
	Kind      string // "relay" | "claim"
	Seqs      []uint64
	Auth      bool
	Leaf      string
	OK        bool
	Noop      []bool // per relay message: answered NOOP
}

type relayIn struct {
	Seqs []uint64
	Auth bool
}
type relayOut struct {
	OK   bool
	Noop []bool
}

var relayModel = porcupine.Model{
	Init: func() interface{} { return uint64(1) },
	Step: func(state, in, out interface{}) (bool, interface{}) {
		next := state.(uint64)
		i, o := in.(relayIn), out.(relayOut)
		if !i.Auth {
			return !o.OK, next
		}
		cur := next
		for k, s := range i.Seqs {
			switch {
			case s < cur:
				if o.OK && (k >= len(o.Noop) || !o.Noop[k]) {
					return false, next // a processed sequence must answer NOOP
				}
			case s == cur:
				if o.OK && k < len(o.Noop) && o.Noop[k] {
					return false, next // the expected sequence must be processed, not skipped
				}
				cur++
			default:
				return !o.OK, next // ahead of the expected sequence: the whole tx is rejected
			}
		}
		if !o.OK {
			return false, next // every message was stale or in order: the tx must succeed
		}
		return true, cur
	},
	Equal: func(a, b interface{}) bool { return a.(uint64) == b.(uint64) },
}

type claimIn struct{ Leaf string }

var claimModel = porcupine.Model{
	Partition: func(history []porcupine.Operation) [][]porcupine.Operation {
		by := map[string][]porcupine.Operation{}
		var keys []string
		for _, op := range history {
			k := op.Input.(claimIn).Leaf
			if _, ok := by[k]; !ok {
				keys = append(keys, k)
			}
			by[k] = append(by[k], op)
		}
		out := make([][]porcupine.Operation, 0, len(keys))
		for _, k := range keys {
			out = append(out, by[k])
		}
		return out
	},
	Init: func() interface{} { return false },
	Step: func(state, in, out interface{}) (bool, interface{}) {
		paid := state.(bool)
		if out.(bool) {
			return !paid, true // a claim may succeed only if the withdrawal has not been paid yet
		}
		return true, paid // a claim may fail for many reasons (not final yet, deleted output, ...)
	},
	Equal: func(a, b interface{}) bool { return a.(bool) == b.(bool) },
}

func leafKey(x *ophosttypes.MsgFinalizeTokenWithdrawal) string {
	return fmt.Sprintf("%d/%d/%s/%s/%s/%s", x.BridgeId, x.Sequence, x.From, x.To, x.Amount.Denom, x.Amount.Amount)
}

// histInvoke is called when an actor hands a message to the network.
func (tc *twoChain) histInvoke(msgs []sdk.Msg) int64 {
	tc.evSeq++
	return tc.evSeq
}

// histReturn is called when the block result of a delivered message is visible.
func (tc *twoChain) histReturn(call int64, msgs []sdk.Msg, ok bool, resps []interface{}) {
	if call == 0 {
		return
	}
	tc.evSeq++
	switch m0 := msgs[0].(type) {
	case *opchildtypes.MsgFinalizeTokenDeposit:
		op := histOp{Call: call, Ret: tc.evSeq, Kind: "relay", OK: ok, Auth: tc.L2.m.isExecutor(m0.Sender)}
		for i, m := range msgs {
			d, isDep := m.(*opchildtypes.MsgFinalizeTokenDeposit)
			if !isDep {
				return
			}
			op.Seqs = append(op.Seqs, d.Sequence)
			noop := false
			if ok && i < len(resps) {
				if r, isR := resps[i].(*opchildtypes.MsgFinalizeTokenDepositResponse); isR {
					noop = r.Result == opchildtypes.NOOP
				}
			}
			op.Noop = append(op.Noop, noop)
		}
		tc.hist = append(tc.hist, op)
	case *ophosttypes.MsgFinalizeTokenWithdrawal:
		tc.hist = append(tc.hist, histOp{Call: call, Ret: tc.evSeq, Kind: "claim", Leaf: leafKey(m0), OK: ok})
	}
}

// checkHistory runs porcupine over the recorded history (bounded length and time).
func (tc *twoChain) checkHistory() *core.Violation {
	var relays, claims []porcupine.Operation
	for i, h := range tc.hist {
		switch h.Kind {
		case "relay":
			if len(relays) < 60 {
				relays = append(relays, porcupine.Operation{ClientId: i % 8, Input: relayIn{h.Seqs, h.Auth}, Call: h.Call, Output: relayOut{h.OK, h.Noop}, Return: h.Ret})
			}
		case "claim":
			if len(claims) < 200 {
				claims = append(claims, porcupine.Operation{ClientId: i % 8, Input: claimIn{h.Leaf}, Call: h.Call, Output: h.OK, Return: h.Ret})
			}
		}
	}
	tc.r.Stat("history.relay-ops", len(relays))
	tc.r.Stat("history.claim-ops", len(claims))
	if len(relays) > 0 {
		switch porcupine.CheckOperationsTimeout(relayModel, relays, 5*time.Second) {
		case porcupine.Illegal:
			return tc.fail([]string{"C06", "C08"}, "history.relays-not-linearizable", "relay-history-not-linearizable", "the executor-visible history of %d relay transactions is not linearizable against the in-order counter model", len(relays))
		case porcupine.Ok:
			tc.r.Probe("history.relays-linearizable")
		default:
			tc.r.Probe("history.relays-inconclusive")
		}
	}
	if len(claims) > 0 {
		switch porcupine.CheckOperationsTimeout(claimModel, claims, 5*time.Second) {
		case porcupine.Illegal:
			return tc.fail([]string{"C02", "C08"}, "history.claims-not-linearizable", "claim-history-not-linearizable", "the claimant-visible history of %d claim transactions is not linearizable against the paid-at-most-once model", len(claims))
		case porcupine.Ok:
			tc.r.Probe("history.claims-linearizable")
		default:
			tc.r.Probe("history.claims-inconclusive")
		}
	}
	return nil
}
