// Package core holds the simulator kernel: the seeded PRNG, the recorded
// choice stream every run is a pure function of, the run bookkeeping
// (trace log, fault and probe counters, fingerprints), the batch runner,
// the choice-stream minimiser and the evidence writer.
package core

// splitmix64 is used to expand one 64-bit seed into the xoshiro state and to
// mix (VERIF_SEED, property, run index) into a per-run seed.
func splitmix64(x *uint64) uint64 {
	*x += 0x9e3779b97f4a7c15
	z := *x
	z = (z ^ (z >> 30)) * 0xbf58476d1ce4e5b9
	z = (z ^ (z >> 27)) * 0x94d049bb133111eb
	return z ^ (z >> 31)
}

// Mix derives a child seed from a parent seed and a list of integers.
func Mix(seed uint64, parts ...uint64) uint64 {
	s := seed
	out := splitmix64(&s)
	for _, p := range parts {
		s ^= p * 0xd6e8feb86659fd93
		out ^= splitmix64(&s)
	}
	return out
}

// HashString is FNV-1a 64.
func HashString(s string) uint64 {
	h := uint64(14695981039346656037)
	for i := 0; i < len(s); i++ {
		h ^= uint64(s[i])
		h *= 1099511628211
	}
	return h
}

// RNG is xoshiro256**.
type RNG struct{ s [4]uint64 }

func NewRNG(seed uint64) *RNG {
	r := &RNG{}
	x := seed
	for i := range r.s {
		r.s[i] = splitmix64(&x)
	}
	return r
}

func rotl(x uint64, k uint) uint64 { return (x << k) | (x >> (64 - k)) }

func (r *RNG) Uint64() uint64 {
	res := rotl(r.s[1]*5, 7) * 9
	t := r.s[1] << 17
	r.s[2] ^= r.s[0]
	r.s[3] ^= r.s[1]
	r.s[1] ^= r.s[2]
	r.s[0] ^= r.s[3]
	r.s[2] ^= t
	r.s[3] = rotl(r.s[3], 45)
	return res
}
