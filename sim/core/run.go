package core

import (
	"fmt"
	"sort"
	"strings"
)

// Violation is what an oracle reports.  Inv is the stable invariant id used by
// the minimiser ("same violation class"); Key identifies the failing input /
// call site and is what known_findings.json matches on.
type Violation struct {
	Prop string `json:"property"`
	Inv  string `json:"invariant"`
	Key  string `json:"key"`
	Msg  string `json:"message"`
}

func (v *Violation) String() string {
	return fmt.Sprintf("property=%s invariant=%s key=%s: %s", v.Prop, v.Inv, v.Key, v.Msg)
}

// Abort is panicked by the harness itself to end a run early without a
// verdict (e.g. a mismatch that belongs to another property's oracle, so that
// the lock-step model can no longer be trusted for the rest of the run).
// FailNow, when panicked with, ends the run with a violation (see exec1).
type FailNow struct{ Inv, Key, Msg string }

type Abort struct{ Reason string }

// Run is one simulated execution.  Every nondeterministic decision goes
// through Draw*, which either takes the next value from the PRNG (recording
// it) or from a recorded choice list (replay / minimisation).
type Run struct {
	wit    uint64 // see Witness
	Prop   string
	Seed   uint64
	Tier   string
	rng    *RNG
	replay []uint64
	pos    int
	rec    []uint64
	isRep  bool

	Log      []string
	logLimit int

	Faults map[string]int // fault kind -> times it actually fired
	Probes map[string]int // reach probes
	Stats  map[string]int // blocks, txs, ...
	SimNS  int64          // simulated nanoseconds covered

	fp        uint64   // fingerprint of the step-kind sequence + abstract states
	Kinds     []string // step kinds in order (for n-gram coverage)
	NonTriv   bool     // run contained a successful core operation of the property
	KnownHits map[string]*Violation
}

func NewRun(prop string, seed uint64, tier string) *Run {
	return &Run{Prop: prop, Seed: seed, Tier: tier, rng: NewRNG(seed), logLimit: 4000,
		Faults: map[string]int{}, Probes: map[string]int{}, Stats: map[string]int{}, fp: 1469598103934665603,
		KnownHits: map[string]*Violation{}}
}

func NewReplay(prop string, seed uint64, tier string, choices []uint64) *Run {
	r := NewRun(prop, seed, tier)
	r.isRep = true
	r.replay = choices
	return r
}

func (r *Run) Choices() []uint64 { return r.rec }

func (r *Run) raw() uint64 {
	var v uint64
	if r.isRep {
		if r.pos < len(r.replay) {
			v = r.replay[r.pos]
		} else {
			v = 0
		}
		r.pos++
	} else {
		v = r.rng.Uint64()
	}
	return v
}

// Intn draws a choice in [0,n).  Recorded in reduced form so that shrinking a
// recorded value towards zero shrinks the choice towards the first option.
func (r *Run) Intn(n int) int {
	if n <= 1 {
		return 0
	}
	v := r.raw() % uint64(n)
	r.rec = append(r.rec, v)
	return int(v)
}

// Uint64n draws in [0,n) for 64-bit n (n==0 means full range).
func (r *Run) Uint64n(n uint64) uint64 {
	v := r.raw()
	if n != 0 {
		v %= n
	}
	r.rec = append(r.rec, v)
	return v
}

// Chance is true with probability num/den.  Zero (the shrink target) is false.
func (r *Run) Chance(num, den int) bool {
	return r.Intn(den) >= den-num
}

// Weighted picks an index with the given integer weights (first option with
// positive weight is the shrink target).
func (r *Run) Weighted(w []int) int {
	tot := 0
	for _, x := range w {
		if x > 0 {
			tot += x
		}
	}
	if tot == 0 {
		return 0
	}
	v := r.Intn(tot)
	for i, x := range w {
		if x <= 0 {
			continue
		}
		if v < x {
			return i
		}
		v -= x
	}
	return len(w) - 1
}

func (r *Run) Logf(format string, a ...interface{}) {
	if len(r.Log) >= r.logLimit {
		return
	}
	r.Log = append(r.Log, fmt.Sprintf(format, a...))
}

// Step records a step kind (for fingerprints and n-gram coverage) and logs it.
func (r *Run) Step(kind string, format string, a ...interface{}) {
	r.Kinds = append(r.Kinds, kind)
	r.Mark(kind)
	if format != "" {
		r.Logf(kind+" "+format, a...)
	} else {
		r.Logf("%s", kind)
	}
}

// Mark folds an abstract-state token into the run fingerprint.
func (r *Run) Mark(tok string) {
	for i := 0; i < len(tok); i++ {
		r.fp ^= uint64(tok[i])
		r.fp *= 1099511628211
	}
	r.fp ^= 0xff
	r.fp *= 1099511628211
}

func (r *Run) Fingerprint() uint64 { return r.fp }

func (r *Run) Fault(kind string)       { r.Faults[kind]++ }
func (r *Run) Probe(name string)       { r.Probes[name]++ }
func (r *Run) Stat(name string, n int) { r.Stats[name] += n }

// Viol builds a violation for this run's property.
func (r *Run) Viol(inv, key, format string, a ...interface{}) *Violation {
	return &Violation{Prop: r.Prop, Inv: inv, Key: key, Msg: fmt.Sprintf(format, a...)}
}

// Witness folds bytes the system under test produced (app hashes of committed blocks) into the
// determinism witness: two executions of the same choices must not only log the same steps, the
// real nodes must also have reached the same states.
func (r *Run) Witness(bz []byte) {
	r.wit = Mix(r.wit, HashString(string(bz)))
}

// LogDigest is the determinism witness of a run.
func (r *Run) LogDigest() uint64 {
	h := Mix(HashString(strings.Join(r.Log, "\n")), r.wit)
	keys := make([]string, 0, len(r.Stats))
	for k := range r.Stats {
		keys = append(keys, k)
	}
	sort.Strings(keys)
	for _, k := range keys {
		h = Mix(h, HashString(k), uint64(r.Stats[k]))
	}
	return Mix(h, r.fp, uint64(len(r.rec)))
}

func SortedKeys(m map[string]int) []string {
	ks := make([]string, 0, len(m))
	for k := range m {
		ks = append(ks, k)
	}
	sort.Strings(ks)
	return ks
}
