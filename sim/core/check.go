package core

import (
	"encoding/json"
	"fmt"
	"os"
	"path/filepath"
	"runtime"
	"strconv"
	"time"
)

// KnownFindings is the committed /verif/known_findings.json.
type KnownFindings struct {
	Findings []KnownFinding `json:"findings"`
}

type KnownFinding struct {
	Property string `json:"property"`
	Key      string `json:"key"`
	Status   string `json:"status"` // "known" | "fixed"
	Commit   string `json:"commit,omitempty"`
	What     string `json:"what"`
}

func LoadKnown(path string) *KnownFindings {
	k := &KnownFindings{}
	bz, err := os.ReadFile(path)
	if err != nil {
		return k
	}
	if err := json.Unmarshal(bz, k); err != nil {
		fmt.Fprintf(os.Stderr, "known_findings.json unreadable: %v\n", err)
		os.Exit(2)
	}
	return k
}

// Match returns the finding key if v is a listed, still-open finding.
func (k *KnownFindings) Match(v *Violation) string {
	if k == nil || v == nil {
		return ""
	}
	for _, f := range k.Findings {
		if f.Status == "known" && f.Property == v.Prop && f.Key == v.Key {
			return f.Key
		}
	}
	return ""
}

// Listed reports whether (prop,key) is an open known finding; generators use
// it to steer most runs away from re-triggering a listed finding so that
// exploration gets past it.
func (k *KnownFindings) Listed(prop, key string) bool {
	for _, f := range k.Findings {
		if f.Status == "known" && f.Property == prop && f.Key == key {
			return true
		}
	}
	return false
}

func (k *KnownFindings) what(prop, key string) string {
	for _, f := range k.Findings {
		if f.Property == prop && f.Key == key {
			return f.What
		}
	}
	return ""
}

// Known is the process-wide table (read once at start-up, never written).
var Known = &KnownFindings{}

func VerifDir() string {
	if d := os.Getenv("VERIF_DIR"); d != "" {
		return d
	}
	return "/verif"
}

func envSeed(tier string) uint64 {
	if s := os.Getenv("VERIF_SEED"); s != "" {
		if v, err := strconv.ParseUint(s, 10, 64); err == nil {
			return v
		}
		if v, err := strconv.ParseInt(s, 10, 64); err == nil {
			return uint64(v)
		}
		return HashString(s)
	}
	if tier == "thorough" {
		return 20261001
	}
	return 1001
}

// CheckMain runs one property's check for a tier and returns the exit code.
func CheckMain(prop, tier string) int {
	s := Lookup(prop)
	if s == nil {
		fmt.Fprintf(os.Stderr, "unknown property %s\n", prop)
		return 2
	}
	Known = LoadKnown(filepath.Join(VerifDir(), "known_findings.json"))
	seed := envSeed(tier)
	fmt.Printf("opsim property=%s tier=%s VERIF_SEED=%d\n", prop, tier, seed)
	workers := runtime.NumCPU()
	if w := os.Getenv("OPSIM_WORKERS"); w != "" {
		if n, err := strconv.Atoi(w); err == nil && n > 0 {
			workers = n
		}
	}
	maxRuns, secs := s.QuickRuns, s.QuickSecs
	if tier == "thorough" {
		maxRuns, secs = s.ThoroughRuns, s.ThoroughSecs
	}
	if v := os.Getenv("OPSIM_RUNS"); v != "" {
		if n, err := strconv.Atoi(v); err == nil {
			maxRuns = n
		}
	}
	if v := os.Getenv("OPSIM_SECS"); v != "" {
		if n, err := strconv.Atoi(v); err == nil {
			secs = n
		}
	}
	start := time.Now()
	b := RunBatch(s, tier, seed, workers, maxRuns, time.Duration(secs)*time.Second, Known)
	wall := time.Since(start).Seconds()
	attempt := 0
retry:

	if b.hp != nil {
		fmt.Fprintf(os.Stderr, "HARNESS PANIC (exit 2) seed=%d: %v\n%s\n", b.hpSeed, b.hp.val, b.hp.stack)
		return 2
	}
	for _, k := range sortedViolKeys(b.known) {
		fmt.Printf("KNOWN-FINDING: property=%s %s [%s] (hit in %d runs; e.g. %s)\n", prop, Known.what(prop, k), k, b.knownN[k], b.known[k].Msg)
	}
	exit := 0
	nviol := 0
	var replayInfo map[string]interface{}
	if b.viol != nil {
		nviol = 1
		exit = 1
		r := b.violRun
		rf := &ReplayFile{Property: prop, Seed: r.Seed, Tier: tier, Invariant: b.viol.Inv, Key: b.viol.Key, Message: b.viol.Msg,
			Choices: r.Choices(), Trace: r.Log, Faults: r.Faults, Original: len(r.Choices())}
		path := filepath.Join(VerifDir(), "replays", fmt.Sprintf("%s-%d.json", prop, r.Seed))
		full := filepath.Join(VerifDir(), "replays", fmt.Sprintf("%s-%d.full.json", prop, r.Seed))
		_ = WriteReplay(full, rf)
		budget := 120 * time.Second
		if os.Getenv("OPSIM_NOMIN") != "" {
			budget = 0 // bulk re-evaluation of seeded changes: report the unminimised replay
		}
		minC, minRun, minV, n := Minimise(s, prop, r.Seed, tier, r.Choices(), b.viol.Inv, Known, 1500, budget)
		reportPath := full
		if minRun != nil {
			mrf := &ReplayFile{Property: prop, Seed: r.Seed, Tier: tier, Invariant: minV.Inv, Key: minV.Key, Message: minV.Msg,
				Choices: minC, Trace: minRun.Log, Faults: minRun.Faults, Original: len(r.Choices()), MinimiseReplays: n}
			_ = WriteReplay(path, mrf)
			if ok, _ := FreshProcessReplay(path, minV.Inv); ok {
				reportPath = path
			}
		}
		if reportPath == full {
			if ok, out := FreshProcessReplay(full, b.viol.Inv); !ok && s.ID != "C18" {
				// Either the harness is not deterministic, or the code under test keeps state in
				// process memory that an earlier run of this batch process left behind.  Such a
				// violation cannot be handed out as a replay file; look for one that can (a
				// different base seed), and give up with a harness error otherwise.
				fmt.Fprintf(os.Stderr, "violation did not reproduce in a fresh process: %s\n%s\n", b.viol.String(), out)
				left := time.Duration(secs)*time.Second - time.Since(start)
				if attempt < 3 && left > 10*time.Second {
					attempt++
					b = RunBatch(s, tier, Mix(seed, uint64(attempt)), workers, maxRuns, left, Known)
					wall = time.Since(start).Seconds()
					if b.hp != nil {
						fmt.Fprintf(os.Stderr, "HARNESS PANIC (exit 2) seed=%d: %v\n%s\n", b.hpSeed, b.hp.val, b.hp.stack)
						return 2
					}
					goto retry
				}
				fmt.Fprintf(os.Stderr, "no reproducible violation found (harness nondeterminism or process-history dependence, exit 2)\n")
				return 2
			}
		}
		fmt.Printf("violation: %s\n", b.viol.String())
		fmt.Printf("VIOLATION property=%s replay=%s\n", prop, reportPath)
		replayInfo = map[string]interface{}{"replay": reportPath, "invariant": b.viol.Inv, "key": b.viol.Key, "message": b.viol.Msg,
			"choices_original": len(r.Choices()), "choices_minimised": len(minC), "minimise_replays": n}
	}
	// dead reach probes make a thorough pass meaningless
	var dead []string
	if exit == 0 && tier == "thorough" {
		for _, p := range s.RequiredProbes {
			if b.probes[p] == 0 {
				dead = append(dead, p)
			}
		}
	}
	cov := map[string]interface{}{
		"evaluations":                  b.runs,
		"distinct_nontrivial":          len(b.ntfps),
		"rule":                         s.Rule,
		"samples":                      b.samples,
		"distinct_fingerprints":        len(b.fps),
		"nontrivial_runs":              b.nontrivial,
		"aborted_runs":                 b.aborted,
		"abort_reasons":                b.abortWhy,
		"runs_per_hour":                int(float64(b.runs) / wall * 3600),
		"simulated_time_s":             float64(b.simNS) / 1e9,
		"counters":                     b.stats,
		"faults_fired":                 b.faults,
		"reach_probes":                 b.probes,
		"step_kinds":                   len(b.kinds),
		"distinct_step_ngrams_len2to4": len(b.ngrams),
		"components":                   s.Components,
		"known_findings_hit":           b.knownN,
		"workers":                      workers,
		"batch_digest":                 fmt.Sprintf("%016x", b.digest),
	}
	if len(b.samples) == 0 {
		cov["samples"] = []interface{}{map[string]interface{}{"note": "no non-trivial clean run in this batch"}}
	}
	if replayInfo != nil {
		cov["violation"] = replayInfo
	}
	if len(dead) > 0 {
		cov["dead_probes"] = dead
	}
	ev := map[string]interface{}{
		"property_id": prop, "tier": tier, "seed": int64(seed & 0x7fffffffffffffff), "level": s.Level,
		"coverage": cov, "assumptions": s.Assumptions, "wall_s": wall, "violations": nviol,
	}
	bz, _ := json.MarshalIndent(ev, "", " ")
	evdir := filepath.Join(VerifDir(), "evidence")
	if d := os.Getenv("OPSIM_EVIDENCE_DIR"); d != "" {
		evdir = d // used by tools/seedeval.sh so that runs against a deliberately broken tree do not overwrite real evidence
	}
	evp := filepath.Join(evdir, prop+".json")
	_ = os.MkdirAll(filepath.Dir(evp), 0o755)
	if err := os.WriteFile(evp, bz, 0o644); err != nil {
		fmt.Fprintf(os.Stderr, "cannot write evidence: %v\n", err)
		return 2
	}
	fmt.Printf("runs=%d nontrivial=%d distinct_nontrivial=%d aborted=%d wall=%.1fs runs/h=%d faults=%v\n", b.runs, b.nontrivial, len(b.ntfps), b.aborted, wall, int(float64(b.runs)/wall*3600), b.faults)
	if len(dead) > 0 {
		fmt.Fprintf(os.Stderr, "reach probes never hit in thorough tier (exit 2): %v\n", dead)
		return 2
	}
	return exit
}

func sortedViolKeys(m map[string]*Violation) []string {
	ks := make([]string, 0, len(m))
	for k := range m {
		ks = append(ks, k)
	}
	for i := 1; i < len(ks); i++ {
		for j := i; j > 0 && ks[j] < ks[j-1]; j-- {
			ks[j], ks[j-1] = ks[j-1], ks[j]
		}
	}
	return ks
}

// DigestMain prints one determinism-witness line per run (seed, choice count,
// log digest, verdict).  Two processes given the same VERIF_SEED must print
// identical output whatever GOMAXPROCS is.
func DigestMain(prop string, n int) int {
	s := Lookup(prop)
	if s == nil {
		return 2
	}
	base := envSeed("quick")
	for j := 0; j < n; j++ {
		seed := Mix(base, HashString(s.ID), uint64(j))
		r := NewRun(s.ID, seed, "quick")
		v, aborted, hp := exec1(s, r)
		verdict := "ok"
		if hp != nil {
			verdict = fmt.Sprintf("HARNESS-PANIC %v", hp.val)
		} else if v != nil {
			verdict = "viol:" + v.Inv + ":" + v.Key
		} else if aborted != "" {
			verdict = "abort:" + aborted
		}
		fmt.Printf("%s %d %d %016x %s\n", prop, seed, len(r.Choices()), r.LogDigest(), verdict)
	}
	return 0
}

// OneMain re-executes the single run with the given run seed (as printed in a replay file or a sweep log)
// from its PRNG, writes its choice stream as a replay file and reports the verdict.  A run is a pure
// function of (property, tier, run seed, code), so this recovers a replay file that was lost.
func OneMain(prop, tier string, seed uint64) int {
	s := Lookup(prop)
	if s == nil {
		return 2
	}
	Known = LoadKnown(filepath.Join(VerifDir(), "known_findings.json"))
	r := NewRun(s.ID, seed, tier)
	v, aborted, hp := exec1(s, r)
	if hp != nil {
		fmt.Fprintf(os.Stderr, "HARNESS PANIC (exit 2): %v\n%s\n", hp.val, hp.stack)
		return 2
	}
	for _, l := range r.Log {
		fmt.Println("  ", l)
	}
	if aborted != "" {
		fmt.Printf("run aborted (no verdict): %s\n", aborted)
		return 0
	}
	if v == nil {
		fmt.Println("one: no violation")
		return 0
	}
	path := filepath.Join(VerifDir(), "replays", fmt.Sprintf("%s-%d.full.json", prop, seed))
	_ = WriteReplay(path, &ReplayFile{Property: prop, Seed: seed, Tier: tier, Invariant: v.Inv, Key: v.Key, Message: v.Msg, Choices: r.Choices(), Trace: r.Log, Faults: r.Faults, Original: len(r.Choices())})
	fmt.Printf("one: %s\nVIOLATION property=%s replay=%s\n", v.String(), prop, path)
	return 1
}
