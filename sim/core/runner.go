package core

import (
	"encoding/json"
	"fmt"
	"os"
	"os/exec"
	"path/filepath"
	"runtime/debug"
	"sort"
	"strings"
	"sync"
	"time"
)

// Scenario is one property's simulated check.
type Scenario struct {
	ID    string
	Level string // evidence level: exploration | fault_enumeration
	Rule  string // how cases are generated and what makes one non-trivial
	// Run executes one simulated run and returns the first violation (nil if
	// the property held).  All nondeterminism must come from r.
	Run         func(r *Run) *Violation
	Components  map[string]string // component -> "real" | "stub: ..."
	Assumptions []string
	// RequiredProbes must be >0 over a thorough batch (an under-reaching
	// workload must not pass silently).
	RequiredProbes []string
	// Budget per tier.
	QuickRuns, ThoroughRuns int
	QuickSecs, ThoroughSecs int
}

var registry = map[string]*Scenario{}

func Register(s *Scenario)       { registry[s.ID] = s }
func Lookup(id string) *Scenario { return registry[id] }
func AllIDs() []string {
	ids := make([]string, 0, len(registry))
	for k := range registry {
		ids = append(ids, k)
	}
	sort.Strings(ids)
	return ids
}

// ReplayFile is the replay artefact: replaying it is a pure function of the
// file and the code.
type ReplayFile struct {
	Property        string         `json:"property"`
	Seed            uint64         `json:"seed"`
	Tier            string         `json:"tier"`
	Invariant       string         `json:"invariant"`
	Key             string         `json:"key"`
	Message         string         `json:"message"`
	Choices         []uint64       `json:"choices"`
	Trace           []string       `json:"trace"` // human-readable minimised schedule and fault trace
	Faults          map[string]int `json:"faults_fired"`
	Original        int            `json:"original_choice_count"`
	MinimiseReplays int            `json:"minimise_replays"`
}

type harnessPanic struct {
	val   interface{}
	stack string
}

// exec1 runs the scenario once, converting an Abort panic into "no verdict"
// and any other panic into a harness failure.
func exec1(s *Scenario, r *Run) (v *Violation, aborted string, hp *harnessPanic) {
	defer func() {
		if x := recover(); x != nil {
			if a, ok := x.(Abort); ok {
				aborted = a.Reason
				return
			}
			if f, ok := x.(FailNow); ok {
				// a violation met where no *Violation can be returned (world constructors)
				v = r.Viol(f.Inv, f.Key, "%s", f.Msg)
				return
			}
			hp = &harnessPanic{x, string(debug.Stack())}
		}
	}()
	v = s.Run(r)
	return
}

type batchResult struct {
	runs, nontrivial, aborted int
	fps                       map[uint64]struct{}
	ntfps                     map[uint64]struct{}
	faults                    map[string]int
	probes                    map[string]int
	stats                     map[string]int
	simNS                     int64
	ngrams                    map[string]struct{}
	kinds                     map[string]struct{}
	abortWhy                  map[string]int
	samples                   []map[string]interface{}
	known                     map[string]*Violation
	knownN                    map[string]int
	viol                      *Violation
	violRun                   *Run
	hp                        *harnessPanic
	hpSeed                    uint64
	digest                    uint64
}

func newBatch() *batchResult {
	return &batchResult{fps: map[uint64]struct{}{}, ntfps: map[uint64]struct{}{}, faults: map[string]int{}, probes: map[string]int{},
		stats: map[string]int{}, ngrams: map[string]struct{}{}, kinds: map[string]struct{}{}, abortWhy: map[string]int{},
		known: map[string]*Violation{}, knownN: map[string]int{}}
}

func (b *batchResult) absorb(r *Run, aborted string) {
	b.runs++
	b.fps[r.Fingerprint()] = struct{}{}
	if aborted != "" {
		b.aborted++
		b.abortWhy[aborted]++
	}
	if r.NonTriv {
		b.nontrivial++
		b.ntfps[r.Fingerprint()] = struct{}{}
	}
	for k, v := range r.Faults {
		b.faults[k] += v
	}
	for k, v := range r.Probes {
		b.probes[k] += v
	}
	for k, v := range r.Stats {
		b.stats[k] += v
	}
	b.simNS += r.SimNS
	for i := range r.Kinds {
		b.kinds[r.Kinds[i]] = struct{}{}
		for n := 2; n <= 4 && i+n <= len(r.Kinds); n++ {
			if len(b.ngrams) < 2_000_000 {
				b.ngrams[strings.Join(r.Kinds[i:i+n], ">")] = struct{}{}
			}
		}
	}
	for k, v := range r.KnownHits {
		if _, ok := b.known[k]; !ok {
			b.known[k] = v
		}
		b.knownN[k]++
	}
	b.digest ^= Mix(r.Seed, r.LogDigest())
}

// RunBatch executes the tier's budget of runs on `workers` goroutines.  Run j
// uses seed Mix(base, hash(prop), j); results do not depend on the worker
// count or on which worker executed which run.
func RunBatch(s *Scenario, tier string, base uint64, workers int, maxRuns int, maxDur time.Duration, known *KnownFindings) *batchResult {
	total := newBatch()
	var mu sync.Mutex
	var next int
	stop := false
	deadline := time.Now().Add(maxDur)
	var wg sync.WaitGroup
	for w := 0; w < workers; w++ {
		wg.Add(1)
		go func() {
			defer wg.Done()
			for {
				mu.Lock()
				if stop || next >= maxRuns || time.Now().After(deadline) {
					mu.Unlock()
					return
				}
				j := next
				next++
				mu.Unlock()
				seed := Mix(base, HashString(s.ID), uint64(j))
				r := NewRun(s.ID, seed, tier)
				v, aborted, hp := exec1(s, r)
				mu.Lock()
				total.absorb(r, aborted)
				if len(total.samples) < 3 && r.NonTriv && aborted == "" && v == nil {
					tr := r.Log
					if len(tr) > 60 {
						tr = append(append([]string{}, tr[:40]...), fmt.Sprintf("... (%d more steps)", len(r.Log)-40))
					}
					total.samples = append(total.samples, map[string]interface{}{"seed": seed, "choices": len(r.Choices()), "faults_fired": r.Faults, "trace": tr})
				}
				if hp != nil && total.hp == nil {
					total.hp = hp
					total.hpSeed = seed
					stop = true
				}
				if v != nil {
					if kf := known.Match(v); kf != "" {
						if _, ok := total.known[kf]; !ok {
							total.known[kf] = v
						}
						total.knownN[kf]++
					} else if total.viol == nil || seed < total.violRun.Seed {
						total.viol = v
						total.violRun = r
						stop = true
					}
				}
				mu.Unlock()
			}
		}()
	}
	wg.Wait()
	return total
}

// Minimise shrinks the choice list while the same invariant id keeps failing.
func Minimise(s *Scenario, prop string, seed uint64, tier string, choices []uint64, inv string, known *KnownFindings, maxReplays int, maxDur time.Duration) ([]uint64, *Run, *Violation, int) {
	deadline := time.Now().Add(maxDur)
	replays := 0
	var bestRun *Run
	var bestV *Violation
	try := func(c []uint64) bool {
		if replays >= maxReplays || time.Now().After(deadline) {
			return false
		}
		replays++
		r := NewReplay(prop, seed, tier, c)
		v, _, hp := exec1(s, r)
		if hp != nil || v == nil || v.Inv != inv || known.Match(v) != "" {
			return false
		}
		bestRun, bestV = r, v
		_ = bestV
		return true
	}
	cur := append([]uint64{}, choices...)
	if !try(cur) {
		return cur, nil, nil, replays
	}
	// the run may have consumed fewer choices than recorded
	if n := len(bestRun.Choices()); n < len(cur) {
		cur = cur[:n]
	}
	// 1. shortest failing prefix (missing choices read as zero = simplest option)
	lo, hi := 0, len(cur)
	for lo < hi {
		mid := (lo + hi) / 2
		if try(cur[:mid]) {
			hi = mid
		} else {
			lo = mid + 1
		}
	}
	if hi < len(cur) && try(cur[:hi]) {
		cur = cur[:hi]
	}
	improved := true
	for improved && replays < maxReplays && time.Now().Before(deadline) {
		improved = false
		// 2. delete chunks
		for size := 64; size >= 1; size /= 2 {
			for i := 0; i+size <= len(cur); {
				cand := append(append([]uint64{}, cur[:i]...), cur[i+size:]...)
				if try(cand) {
					cur = cand
					improved = true
				} else {
					i += size
				}
				if replays >= maxReplays {
					break
				}
			}
		}
		// 3. zero chunks then shrink single values
		for size := 8; size >= 1; size /= 2 {
			for i := 0; i+size <= len(cur); i += size {
				allz := true
				for _, x := range cur[i : i+size] {
					if x != 0 {
						allz = false
					}
				}
				if allz {
					continue
				}
				cand := append([]uint64{}, cur...)
				for k := i; k < i+size; k++ {
					cand[k] = 0
				}
				if try(cand) {
					cur = cand
					improved = true
				}
			}
		}
		for i := 0; i < len(cur); i++ {
			for cur[i] > 0 {
				cand := append([]uint64{}, cur...)
				cand[i] = cur[i] / 2
				if try(cand) {
					cur = cand
					improved = true
				} else {
					cand[i] = cur[i] - 1
					if cur[i] > 1 && try(cand) {
						cur = cand
						improved = true
					} else {
						break
					}
				}
			}
		}
	}
	// final: make sure bestRun corresponds to cur
	r := NewReplay(prop, seed, tier, cur)
	v, _, _ := exec1(s, r)
	if v != nil && v.Inv == inv {
		return cur, r, v, replays
	}
	return choices, nil, nil, replays
}

func WriteReplay(path string, rf *ReplayFile) error {
	if err := os.MkdirAll(filepath.Dir(path), 0o755); err != nil {
		return err
	}
	bz, err := json.MarshalIndent(rf, "", " ")
	if err != nil {
		return err
	}
	return os.WriteFile(path, bz, 0o644)
}

func ReadReplay(path string) (*ReplayFile, error) {
	bz, err := os.ReadFile(path)
	if err != nil {
		return nil, err
	}
	rf := &ReplayFile{}
	if err := json.Unmarshal(bz, rf); err != nil {
		return nil, err
	}
	return rf, nil
}

// DoReplay re-executes a replay file; returns the violation (nil if it did not
// reproduce).
func DoReplay(rf *ReplayFile) (*Violation, *Run, error) {
	s := Lookup(rf.Property)
	if s == nil {
		return nil, nil, fmt.Errorf("unknown property %s", rf.Property)
	}
	r := NewReplay(rf.Property, rf.Seed, rf.Tier, rf.Choices)
	v, aborted, hp := exec1(s, r)
	if hp != nil {
		return nil, r, fmt.Errorf("harness panic during replay: %v\n%s", hp.val, hp.stack)
	}
	if aborted != "" && v == nil {
		return nil, r, nil
	}
	return v, r, nil
}

// FreshProcessReplay runs `opsim replay file` in a new OS process and reports
// whether it reproduced the same invariant.
func FreshProcessReplay(path, inv string) (bool, string) {
	exe, err := os.Executable()
	if err != nil {
		return false, err.Error()
	}
	cmd := exec.Command(exe, "replay", path)
	cmd.Env = append(os.Environ(), "OPSIM_CHILD=1")
	out, _ := cmd.CombinedOutput()
	ok := cmd.ProcessState != nil && cmd.ProcessState.ExitCode() == 1 && strings.Contains(string(out), "invariant="+inv+" ")
	if !ok && cmd.ProcessState != nil && cmd.ProcessState.ExitCode() == 1 && strings.Contains(string(out), "C18 replay:") {
		ok = true // C18: any reproduced divergence of the recorded history counts
	}
	return ok, string(out)
}
