module opsim

go 1.22.2

toolchain go1.23.0

require (
	cosmossdk.io/api v0.7.5
	cosmossdk.io/collections v0.4.0
	cosmossdk.io/core v0.11.1
	cosmossdk.io/errors v1.0.1
	cosmossdk.io/log v1.4.1
	cosmossdk.io/math v1.4.0
	cosmossdk.io/simapp v0.0.0-20231211060251-d8fb76d4c267
	cosmossdk.io/store v1.1.1
	cosmossdk.io/x/tx v0.13.4
	github.com/cometbft/cometbft v0.38.12
	github.com/cosmos/cosmos-db v1.0.2
	github.com/cosmos/cosmos-proto v1.0.0-beta.5
	github.com/cosmos/cosmos-sdk v0.50.9
	github.com/cosmos/go-bip39 v1.0.0
	github.com/cosmos/gogoproto v1.7.0
	github.com/cosmos/ibc-go/v8 v8.5.0
	github.com/cosmos/relayer/v2 v2.5.2
	github.com/golang/protobuf v1.5.4
	github.com/grpc-ecosystem/grpc-gateway v1.16.0
	github.com/initia-labs/OPinit/api v0.6.0
	github.com/pkg/errors v0.9.1
	github.com/skip-mev/block-sdk/v2 v2.1.1
	github.com/skip-mev/connect/v2 v2.0.1
	github.com/spf13/cobra v1.8.1
	github.com/stretchr/testify v1.9.0
	golang.org/x/crypto v0.27.0
	golang.org/x/sync v0.8.0
	google.golang.org/genproto/googleapis/api v0.0.0-20240903143218-8af14fe29dc1
	google.golang.org/grpc v1.66.2
	google.golang.org/protobuf v1.34.2
	gopkg.in/yaml.v3 v3.0.1
	sigs.k8s.io/yaml v1.4.0
)

require (
	cloud.google.com/go v0.115.0 // indirect
	cloud.google.com/go/auth v0.7.2 // indirect
	cloud.google.com/go/auth/oauth2adapt v0.2.3 // indirect
	cloud.google.com/go/compute/metadata v0.5.0 // indirect
	cloud.google.com/go/iam v1.1.12 // indirect
	cloud.google.com/go/storage v1.41.0 // indirect
	cosmossdk.io/client/v2 v2.0.0-beta.3 // indirect
	cosmossdk.io/depinject v1.0.0 // indirect
	cosmossdk.io/x/circuit v0.1.1 // indirect
	cosmossdk.io/x/evidence v0.1.1 // indirect
	cosmossdk.io/x/feegrant v0.1.1 // indirect
	cosmossdk.io/x/nft v0.1.0 // indirect
	cosmossdk.io/x/upgrade v0.1.4 // indirect
	filippo.io/edwards25519 v1.1.0 // indirect
	github.com/99designs/go-keychain v0.0.0-20191008050251-8e49817e8af4 // indirect
	github.com/99designs/keyring v1.2.2 // indirect
	github.com/DataDog/datadog-go v3.2.0+incompatible // indirect
	github.com/DataDog/zstd v1.5.5 // indirect
	github.com/StackExchange/wmi v1.2.1 // indirect
	github.com/VictoriaMetrics/fastcache v1.12.2 // indirect
	github.com/avast/retry-go/v4 v4.5.1 // indirect
	github.com/aws/aws-sdk-go v1.44.312 // indirect
	github.com/beorn7/perks v1.0.1 // indirect
	github.com/bgentry/go-netrc v0.0.0-20140422174119-9fd32a8b3d3d // indirect
	github.com/bgentry/speakeasy v0.1.1-0.20220910012023-760eaf8b6816 // indirect
	github.com/bits-and-blooms/bitset v1.14.2 // indirect
	github.com/btcsuite/btcd v0.24.2 // indirect
	github.com/btcsuite/btcd/btcec/v2 v2.3.4 // indirect
	github.com/btcsuite/btcd/btcutil v1.1.6 // indirect
	github.com/btcsuite/btcd/chaincfg/chainhash v1.1.0 // indirect
	github.com/cenkalti/backoff/v4 v4.2.1 // indirect
	github.com/cespare/xxhash/v2 v2.3.0 // indirect
	github.com/chzyer/readline v1.5.1 // indirect
	github.com/cockroachdb/apd/v2 v2.0.2 // indirect
	github.com/cockroachdb/errors v1.11.3 // indirect
	github.com/cockroachdb/fifo v0.0.0-20240606204812-0bbfbd93a7ce // indirect
	github.com/cockroachdb/logtags v0.0.0-20230118201751-21c54148d20b // indirect
	github.com/cockroachdb/pebble v1.1.2 // indirect
	github.com/cockroachdb/redact v1.1.5 // indirect
	github.com/cockroachdb/tokenbucket v0.0.0-20230807174530-cc333fc44b06 // indirect
	github.com/cometbft/cometbft-db v0.12.0 // indirect
	github.com/consensys/bavard v0.1.13 // indirect
	github.com/consensys/gnark-crypto v0.12.1 // indirect
	github.com/cosmos/btcutil v1.0.5 // indirect
	github.com/cosmos/gogogateway v1.2.0 // indirect
	github.com/cosmos/iavl v1.2.0 // indirect
	github.com/cosmos/ibc-go/modules/capability v1.0.1 // indirect
	github.com/cosmos/ics23/go v0.11.0 // indirect
	github.com/cosmos/interchain-security/v6 v6.0.0 // indirect
	github.com/cosmos/ledger-cosmos-go v0.13.3 // indirect
	github.com/crate-crypto/go-ipa v0.0.0-20240223125850-b1e8a79f509c // indirect
	github.com/crate-crypto/go-kzg-4844 v1.0.0 // indirect
	github.com/danieljoos/wincred v1.1.2 // indirect
	github.com/davecgh/go-spew v1.1.2-0.20180830191138-d8f796af33cc // indirect
	github.com/decred/dcrd/dcrec/secp256k1/v4 v4.2.0 // indirect
	github.com/desertbit/timer v0.0.0-20180107155436-c41aec40b27f // indirect
	github.com/dgraph-io/badger/v4 v4.2.0 // indirect
	github.com/dgraph-io/ristretto v0.1.1 // indirect
	github.com/dustin/go-humanize v1.0.1 // indirect
	github.com/dvsekhvalnov/jose2go v1.6.0 // indirect
	github.com/emicklei/dot v1.6.1 // indirect
	github.com/ethereum/c-kzg-4844 v1.0.0 // indirect
	github.com/ethereum/go-ethereum v1.14.9 // indirect
	github.com/ethereum/go-verkle v0.1.1-0.20240829091221-dffa7562dbe9 // indirect
	github.com/fatih/color v1.17.0 // indirect
	github.com/felixge/httpsnoop v1.0.4 // indirect
	github.com/fsnotify/fsnotify v1.7.0 // indirect
	github.com/gabriel-vasile/mimetype v1.4.3 // indirect
	github.com/getsentry/sentry-go v0.27.0 // indirect
	github.com/go-kit/kit v0.13.0 // indirect
	github.com/go-kit/log v0.2.1 // indirect
	github.com/go-logfmt/logfmt v0.6.0 // indirect
	github.com/go-logr/logr v1.4.2 // indirect
	github.com/go-logr/stdr v1.2.2 // indirect
	github.com/go-ole/go-ole v1.3.0 // indirect
	github.com/go-playground/validator/v10 v10.14.0 // indirect
	github.com/gobwas/ws v1.1.0 // indirect
	github.com/godbus/dbus v0.0.0-20190726142602-4481cbc300e2 // indirect
	github.com/gofrs/flock v0.12.1 // indirect
	github.com/gogo/googleapis v1.4.1 // indirect
	github.com/gogo/protobuf v1.3.2 // indirect
	github.com/golang/glog v1.2.1 // indirect
	github.com/golang/groupcache v0.0.0-20210331224755-41bb18bfe9da // indirect
	github.com/golang/mock v1.6.0 // indirect
	github.com/golang/snappy v0.0.5-0.20220116011046-fa5810519dcb // indirect
	github.com/google/btree v1.1.2 // indirect
	github.com/google/flatbuffers v1.12.1 // indirect
	github.com/google/go-cmp v0.6.0 // indirect
	github.com/google/go-github/v43 v43.0.0 // indirect
	github.com/google/go-querystring v1.1.0 // indirect
	github.com/google/orderedcode v0.0.1 // indirect
	github.com/google/s2a-go v0.1.7 // indirect
	github.com/google/uuid v1.6.0 // indirect
	github.com/googleapis/enterprise-certificate-proxy v0.3.2 // indirect
	github.com/googleapis/gax-go/v2 v2.13.0 // indirect
	github.com/gorilla/handlers v1.5.2 // indirect
	github.com/gorilla/mux v1.8.1 // indirect
	github.com/gorilla/websocket v1.5.3 // indirect
	github.com/grpc-ecosystem/go-grpc-middleware v1.4.0 // indirect
	github.com/gsterjov/go-libsecret v0.0.0-20161001094733-a6f4afe4910c // indirect
	github.com/hashicorp/go-cleanhttp v0.5.2 // indirect
	github.com/hashicorp/go-getter v1.7.5 // indirect
	github.com/hashicorp/go-hclog v1.5.0 // indirect
	github.com/hashicorp/go-immutable-radix v1.3.1 // indirect
	github.com/hashicorp/go-metrics v0.5.3 // indirect
	github.com/hashicorp/go-plugin v1.5.2 // indirect
	github.com/hashicorp/go-safetemp v1.0.0 // indirect
	github.com/hashicorp/go-uuid v1.0.3 // indirect
	github.com/hashicorp/go-version v1.7.0 // indirect
	github.com/hashicorp/golang-lru v1.0.2 // indirect
	github.com/hashicorp/golang-lru/v2 v2.0.7 // indirect
	github.com/hashicorp/hcl v1.0.0 // indirect
	github.com/hashicorp/yamux v0.1.1 // indirect
	github.com/hdevalence/ed25519consensus v0.1.0 // indirect
	github.com/holiman/bloomfilter/v2 v2.0.3 // indirect
	github.com/holiman/uint256 v1.3.1 // indirect
	github.com/huandu/skiplist v1.2.0 // indirect
	github.com/iancoleman/strcase v0.3.0 // indirect
	github.com/improbable-eng/grpc-web v0.15.0 // indirect
	github.com/inconshreveable/mousetrap v1.1.0 // indirect
	github.com/jmespath/go-jmespath v0.4.0 // indirect
	github.com/jmhodges/levigo v1.0.0 // indirect
	github.com/jsternberg/zap-logfmt v1.3.0 // indirect
	github.com/klauspost/compress v1.17.9 // indirect
	github.com/kr/pretty v0.3.1 // indirect
	github.com/kr/text v0.2.0 // indirect
	github.com/lib/pq v1.10.9 // indirect
	github.com/linxGnu/grocksdb v1.8.14 // indirect
	github.com/magiconair/properties v1.8.7 // indirect
	github.com/manifoldco/promptui v0.9.0 // indirect
	github.com/mattn/go-colorable v0.1.13 // indirect
	github.com/mattn/go-isatty v0.0.20 // indirect
	github.com/mattn/go-runewidth v0.0.13 // indirect
	github.com/minio/highwayhash v1.0.2 // indirect
	github.com/mitchellh/go-homedir v1.1.0 // indirect
	github.com/mitchellh/go-testing-interface v1.14.1 // indirect
	github.com/mitchellh/mapstructure v1.5.0 // indirect
	github.com/mmcloughlin/addchain v0.4.0 // indirect
	github.com/mtibben/percent v0.2.1 // indirect
	github.com/munnerz/goautoneg v0.0.0-20191010083416-a7dc8b61c822 // indirect
	github.com/oasisprotocol/curve25519-voi v0.0.0-20230904125328-1f23a7beb09a // indirect
	github.com/oklog/run v1.1.0 // indirect
	github.com/olekukonko/tablewriter v0.0.5 // indirect
	github.com/pelletier/go-toml/v2 v2.2.3 // indirect
	github.com/petermattis/goid v0.0.0-20231207134359-e60b3f734c67 // indirect
	github.com/pmezard/go-difflib v1.0.1-0.20181226105442-5d4384ee4fb2 // indirect
	github.com/prometheus/client_golang v1.20.4 // indirect
	github.com/prometheus/client_model v0.6.1 // indirect
	github.com/prometheus/common v0.55.0 // indirect
	github.com/prometheus/procfs v0.15.1 // indirect
	github.com/rcrowley/go-metrics v0.0.0-20201227073835-cf1acfcdf475 // indirect
	github.com/rivo/uniseg v0.2.0 // indirect
	github.com/rogpeppe/go-internal v1.12.0 // indirect
	github.com/rs/cors v1.11.1 // indirect
	github.com/rs/zerolog v1.33.0 // indirect
	github.com/sagikazarmark/locafero v0.4.0 // indirect
	github.com/sagikazarmark/slog-shim v0.1.0 // indirect
	github.com/sasha-s/go-deadlock v0.3.1 // indirect
	github.com/shirou/gopsutil v3.21.4-0.20210419000835-c7a38de76ee5+incompatible // indirect
	github.com/sourcegraph/conc v0.3.0 // indirect
	github.com/spf13/afero v1.11.0 // indirect
	github.com/spf13/cast v1.7.0 // indirect
	github.com/spf13/pflag v1.0.5 // indirect
	github.com/spf13/viper v1.19.0 // indirect
	github.com/strangelove-ventures/cometbft-client v0.1.0 // indirect
	github.com/subosito/gotenv v1.6.0 // indirect
	github.com/supranational/blst v0.3.11 // indirect
	github.com/syndtr/goleveldb v1.0.1-0.20220721030215-126854af5e6d // indirect
	github.com/tendermint/go-amino v0.16.0 // indirect
	github.com/tidwall/btree v1.7.0 // indirect
	github.com/tklauser/go-sysconf v0.3.12 // indirect
	github.com/tklauser/numcpus v0.6.1 // indirect
	github.com/tyler-smith/go-bip39 v1.1.0 // indirect
	github.com/ulikunitz/xz v0.5.11 // indirect
	github.com/zondax/hid v0.9.2 // indirect
	github.com/zondax/ledger-go v0.14.3 // indirect
	go.etcd.io/bbolt v1.4.0-alpha.0.0.20240404170359-43604f3112c5 // indirect
	go.opencensus.io v0.24.0 // indirect
	go.opentelemetry.io/contrib/instrumentation/google.golang.org/grpc/otelgrpc v0.49.0 // indirect
	go.opentelemetry.io/contrib/instrumentation/net/http/otelhttp v0.49.0 // indirect
	go.opentelemetry.io/otel v1.24.0 // indirect
	go.opentelemetry.io/otel/metric v1.24.0 // indirect
	go.opentelemetry.io/otel/trace v1.24.0 // indirect
	go.uber.org/multierr v1.11.0 // indirect
	go.uber.org/zap v1.27.0 // indirect
	golang.org/x/exp v0.0.0-20240909161429-701f63a606c0 // indirect
	golang.org/x/net v0.29.0 // indirect
	golang.org/x/oauth2 v0.21.0 // indirect
	golang.org/x/sys v0.25.0 // indirect
	golang.org/x/term v0.24.0 // indirect
	golang.org/x/text v0.18.0 // indirect
	golang.org/x/time v0.6.0 // indirect
	google.golang.org/api v0.189.0 // indirect
	google.golang.org/genproto v0.0.0-20240722135656-d784300faade // indirect
	google.golang.org/genproto/googleapis/rpc v0.0.0-20240903143218-8af14fe29dc1 // indirect
	gopkg.in/ini.v1 v1.67.0 // indirect
	gopkg.in/yaml.v2 v2.4.0 // indirect
	gotest.tools/v3 v3.5.1 // indirect
	nhooyr.io/websocket v1.8.6 // indirect
	pgregory.net/rapid v1.1.0 // indirect
	rsc.io/tmplfunc v0.0.3 // indirect
)

replace github.com/initia-labs/OPinit/api => /repo/api

replace (
	// use cosmos fork of keyring
	github.com/99designs/keyring => github.com/cosmos/keyring v1.2.0
	// dgrijalva/jwt-go is deprecated and doesn't receive security updates.
	// TODO: remove it: https://github.com/cosmos/cosmos-sdk/issues/13134
	github.com/dgrijalva/jwt-go => github.com/golang-jwt/jwt/v4 v4.4.2
	// Fix upstream GHSA-h395-qcrw-5vmq vulnerability.
	// TODO Remove it: https://github.com/cosmos/cosmos-sdk/issues/10409
	github.com/gin-gonic/gin => github.com/gin-gonic/gin v1.8.1
	// Downgraded to avoid bugs in following commits which caused simulations to fail.
	github.com/syndtr/goleveldb => github.com/syndtr/goleveldb v1.0.1-0.20210819022825-2ae1ddf74ef7
)

// initia custom
// use custom version until this PR is merged
// - https://github.com/strangelove-ventures/cometbft-client/pull/10
replace github.com/strangelove-ventures/cometbft-client => github.com/initia-labs/cometbft-client v0.0.0-20240924071428-ef115cefa07e

require github.com/initia-labs/OPinit v0.0.0

replace github.com/initia-labs/OPinit => /repo

require github.com/anishathalye/porcupine v1.3.0
