package node

import (
	goruntime "runtime"
	"sync/atomic"

	"bytes"
	"context"
	"encoding/json"
	"fmt"
	"sort"
	"time"

	"cosmossdk.io/log"
	storetypes "cosmossdk.io/store/types"
	abci "github.com/cometbft/cometbft/abci/types"
	cmtproto "github.com/cometbft/cometbft/proto/tendermint/types"
	dbm "github.com/cosmos/cosmos-db"
	"github.com/cosmos/cosmos-sdk/baseapp"
	"github.com/cosmos/cosmos-sdk/runtime"
	sdk "github.com/cosmos/cosmos-sdk/types"
	"github.com/cosmos/cosmos-sdk/types/module"
	"github.com/cosmos/cosmos-sdk/x/auth"
	authante "github.com/cosmos/cosmos-sdk/x/auth/ante"
	authcodec "github.com/cosmos/cosmos-sdk/x/auth/codec"
	authkeeper "github.com/cosmos/cosmos-sdk/x/auth/keeper"
	authtypes "github.com/cosmos/cosmos-sdk/x/auth/types"
	"github.com/cosmos/cosmos-sdk/x/bank"
	bankkeeper "github.com/cosmos/cosmos-sdk/x/bank/keeper"
	banktypes "github.com/cosmos/cosmos-sdk/x/bank/types"

	"github.com/initia-labs/OPinit/x/ophost"
	ophostkeeper "github.com/initia-labs/OPinit/x/ophost/keeper"
	ophosttypes "github.com/initia-labs/OPinit/x/ophost/types"
	ophosthook "github.com/initia-labs/OPinit/x/ophost/types/hook"
)

const (
	L1ChainID          = "sim-l1"
	L2ChainID          = "sim-l2"
	StubStoreKey       = "simstub"
	ConsParamsStoreKey = "simconsparams"
	DistrModule        = "distribution"
)

// L1Genesis is what a fresh L1 node is initialised from.
type L1Genesis struct {
	Time     time.Time
	Balances map[string]sdk.Coins // bech32 -> coins (iterated in sorted order)
	Ophost   *ophosttypes.GenesisState
	// Raw app state from a previous export (used by export/import round trips);
	// when set, Balances/Ophost are ignored.
	AppState map[string]json.RawMessage
	// InitialHeight > 1: the chain restarts from an exported genesis at that height
	InitialHeight int64
}

// StubOp mutates the store-backed IBC stub tables at the start of a block
// (block-level input, re-supplied on replay after a crash).
type StubOp struct {
	Kind    string // "open" (create channel, next send seq 1), "send" (bump next send seq), "setadmin"
	Port    string
	Channel string
	Admin   sdk.AccAddress
}

type L1 struct {
	DB    dbm.DB
	Enc   Encoding
	App   *baseapp.BaseApp
	Keys  map[string]*storetypes.KVStoreKey
	AK    authkeeper.AccountKeeper
	BK    bankkeeper.BaseKeeper
	OK    *ophostkeeper.Keeper
	Fault *FaultState
	MM    *module.Manager

	GovAddr string

	pendingStub              []StubOp
	lastTime                 time.Time
	initialHeight            int64
	blocksBegun, blocksEnded int64 // atomic: how many times the end of a block execution was reached
}

// ---- consensus param store (kv-backed so it survives restarts) ----
type consParamStore struct{ key *storetypes.KVStoreKey }

func (s consParamStore) Get(ctx context.Context) (cmtproto.ConsensusParams, error) {
	bz := sdk.UnwrapSDKContext(ctx).KVStore(s.key).Get([]byte("cp"))
	var cp cmtproto.ConsensusParams
	if bz == nil {
		return cp, fmt.Errorf("no consensus params")
	}
	err := cp.Unmarshal(bz)
	return cp, err
}
func (s consParamStore) Has(ctx context.Context) (bool, error) {
	return sdk.UnwrapSDKContext(ctx).KVStore(s.key).Has([]byte("cp")), nil
}
func (s consParamStore) Set(ctx context.Context, cp cmtproto.ConsensusParams) error {
	bz, err := cp.Marshal()
	if err != nil {
		return err
	}
	sdk.UnwrapSDKContext(ctx).KVStore(s.key).Set([]byte("cp"), bz)
	return nil
}

// ---- fault-injecting wrapper around the real bank keeper (ophost's BankKeeper seam) ----
type l1Bank struct {
	bankkeeper.BaseKeeper
	fs *FaultState
}

func (b l1Bank) SendCoins(ctx context.Context, from, to sdk.AccAddress, amt sdk.Coins) error {
	if err := b.fs.Hit("bank", "SendCoins"); err != nil {
		return err
	}
	return b.BaseKeeper.SendCoins(ctx, from, to, amt)
}
func (b l1Bank) SendCoinsFromAccountToModule(ctx context.Context, from sdk.AccAddress, mod string, amt sdk.Coins) error {
	if err := b.fs.Hit("bank", "SendCoinsFromAccountToModule"); err != nil {
		return err
	}
	return b.BaseKeeper.SendCoinsFromAccountToModule(ctx, from, mod, amt)
}

// ---- community pool stub: store-backed (real bank transfer to the distribution module account) ----
type communityPool struct {
	bk l1Bank
}

func (c communityPool) FundCommunityPool(ctx context.Context, amount sdk.Coins, sender sdk.AccAddress) error {
	if err := c.bk.fs.Hit("pool", "FundCommunityPool"); err != nil {
		return err
	}
	return c.bk.BaseKeeper.SendCoinsFromAccountToModule(ctx, sender, DistrModule, amount)
}

// ---- IBC channel / perm keeper stubs: store-backed tables so tx rollback applies ----
type ibcStub struct {
	key *storetypes.KVStoreKey
	fs  *FaultState
}

func seqKey(p, c string) []byte { return []byte("seq/" + p + "/" + c) }
func admKey(p, c string) []byte { return []byte("adm/" + p + "/" + c) }

func (s ibcStub) GetNextSequenceSend(ctx sdk.Context, portID, channelID string) (uint64, bool) {
	bz := ctx.KVStore(s.key).Get(seqKey(portID, channelID))
	if bz == nil {
		return 0, false
	}
	return sdk.BigEndianToUint64(bz), true
}
func (s ibcStub) IsTaken(ctx context.Context, portID, channelID string) (bool, error) {
	if err := s.fs.Hit("perm", "IsTaken"); err != nil {
		return false, err
	}
	return sdk.UnwrapSDKContext(ctx).KVStore(s.key).Has(admKey(portID, channelID)), nil
}
func (s ibcStub) SetAdmin(ctx context.Context, portID, channelID string, admin sdk.AccAddress) error {
	if err := s.fs.Hit("perm", "SetAdmin"); err != nil {
		return err
	}
	sdk.UnwrapSDKContext(ctx).KVStore(s.key).Set(admKey(portID, channelID), admin)
	return nil
}
func (s ibcStub) HasAdminPermission(ctx context.Context, portID, channelID string, admin sdk.AccAddress) (bool, error) {
	if err := s.fs.Hit("perm", "HasAdminPermission"); err != nil {
		return false, err
	}
	bz := sdk.UnwrapSDKContext(ctx).KVStore(s.key).Get(admKey(portID, channelID))
	return bz != nil && bytes.Equal(bz, admin), nil
}

// faultAnte arms the node's fault state from the tx memo at the start of every tx.
type faultAnte struct{ fs *FaultState }

func (f faultAnte) AnteHandle(ctx sdk.Context, tx sdk.Tx, simulate bool, next sdk.AnteHandler) (sdk.Context, error) {
	memo := ""
	if m, ok := tx.(sdk.TxWithMemo); ok {
		memo = m.GetMemo()
	}
	f.fs.BeginTx(memo)
	return next(ctx, tx, simulate)
}

var l1MaccPerms = map[string][]string{
	authtypes.FeeCollectorName: nil,
	DistrModule:                nil,
	"gov":                      {authtypes.Burner},
	authtypes.Minter:           {authtypes.Minter, authtypes.Burner},
}

// NewL1 builds a node over db.  On an empty DB it runs InitChain with gen and
// commits block 1; on a non-empty DB it is a restart (gen is ignored).
func NewL1(db dbm.DB, gen *L1Genesis) *L1 {
	db = wrapDB(db) // see safedb.go
	enc := MakeEncoding()
	n := &L1{DB: db, Enc: enc, Fault: &FaultState{Record: true}}
	app := baseapp.NewBaseApp("sim-l1", log.NewNopLogger(), db, enc.TxConfig.TxDecoder(), baseapp.SetChainID(L1ChainID), baseapp.SetOptimisticExecution())
	app.SetInterfaceRegistry(enc.Registry)
	n.App = app
	n.Keys = storetypes.NewKVStoreKeys(authtypes.StoreKey, banktypes.StoreKey, ophosttypes.StoreKey, StubStoreKey, ConsParamsStoreKey)
	app.MountKVStores(n.Keys)
	app.SetParamStore(consParamStore{n.Keys[ConsParamsStoreKey]})

	n.GovAddr = authtypes.NewModuleAddress("gov").String()
	ac := authcodec.NewBech32Codec(sdk.GetConfig().GetBech32AccountAddrPrefix())
	n.AK = authkeeper.NewAccountKeeper(enc.Codec, runtime.NewKVStoreService(n.Keys[authtypes.StoreKey]), authtypes.ProtoBaseAccount,
		l1MaccPerms, ac, sdk.GetConfig().GetBech32AccountAddrPrefix(), n.GovAddr)
	blocked := map[string]bool{}
	for acc := range l1MaccPerms {
		blocked[authtypes.NewModuleAddress(acc).String()] = true
	}
	n.BK = bankkeeper.NewBaseKeeper(enc.Codec, runtime.NewKVStoreService(n.Keys[banktypes.StoreKey]), n.AK, blocked, n.GovAddr, log.NewNopLogger())
	wb := l1Bank{n.BK, n.Fault}
	stub := ibcStub{n.Keys[StubStoreKey], n.Fault}
	hook := ophosthook.NewBridgeHook(stub, stub, ac)
	n.OK = ophostkeeper.NewKeeper(enc.Codec, runtime.NewKVStoreService(n.Keys[ophosttypes.StoreKey]), n.AK, wb, communityPool{wb},
		ophosttypes.NewBridgeHooks(hook), n.GovAddr)

	authMod := auth.NewAppModule(enc.Codec, n.AK, nil, nil)
	bankMod := bank.NewAppModule(enc.Codec, n.BK, n.AK, nil)
	hostMod := ophost.NewAppModule(enc.Codec, *n.OK)
	n.MM = module.NewManager(authMod, bankMod, hostMod)
	cfg := module.NewConfigurator(enc.Codec, app.MsgServiceRouter(), app.GRPCQueryRouter())
	if err := n.MM.RegisterServices(cfg); err != nil {
		panic(err)
	}

	app.SetInitChainer(func(ctx sdk.Context, req *abci.RequestInitChain) (*abci.ResponseInitChain, error) {
		var state map[string]json.RawMessage
		if err := json.Unmarshal(req.AppStateBytes, &state); err != nil {
			return nil, err
		}
		authMod.InitGenesis(ctx, enc.Codec, state[authtypes.ModuleName])
		bankMod.InitGenesis(ctx, enc.Codec, state[banktypes.ModuleName])
		hostMod.InitGenesis(ctx, enc.Codec, state[ophosttypes.ModuleName])
		if raw, ok := state[StubStoreKey]; ok {
			var kv [][2][]byte
			if err := json.Unmarshal(raw, &kv); err != nil {
				return nil, err
			}
			st := ctx.KVStore(n.Keys[StubStoreKey])
			for _, e := range kv {
				st.Set(e[0], e[1])
			}
		}
		return &abci.ResponseInitChain{}, nil
	})
	app.SetPreBlocker(func(ctx sdk.Context, req *abci.RequestFinalizeBlock) (*sdk.ResponsePreBlock, error) {
		ctx.KVStore(n.Keys[ConsParamsStoreKey]).Set([]byte("lt"), sdk.FormatTimeBytes(ctx.BlockTime()))
		st := ctx.KVStore(n.Keys[StubStoreKey])
		for _, op := range n.pendingStub {
			switch op.Kind {
			case "open":
				if !st.Has(seqKey(op.Port, op.Channel)) {
					st.Set(seqKey(op.Port, op.Channel), sdk.Uint64ToBigEndian(1))
				}
			case "send":
				if bz := st.Get(seqKey(op.Port, op.Channel)); bz != nil {
					st.Set(seqKey(op.Port, op.Channel), sdk.Uint64ToBigEndian(sdk.BigEndianToUint64(bz)+1))
				}
			case "setadmin":
				st.Set(admKey(op.Port, op.Channel), op.Admin)
			}
		}
		return &sdk.ResponsePreBlock{}, nil
	})
	app.SetEndBlocker(func(ctx sdk.Context) (sdk.EndBlock, error) {
		atomic.AddInt64(&n.blocksEnded, 1)
		return sdk.EndBlock{}, nil
	})
	app.SetAnteHandler(sdk.ChainAnteDecorators(authante.NewSetUpContextDecorator(), faultAnte{n.Fault}))

	if err := app.LoadLatestVersion(); err != nil {
		panic(err)
	}
	if app.LastBlockHeight() == 0 {
		if gen == nil {
			panic("fresh L1 node needs a genesis")
		}
		n.initChain(gen)
	} else {
		// restart: recover the last block time from durable state
		if bz := app.CommitMultiStore().GetKVStore(n.Keys[ConsParamsStoreKey]).Get([]byte("lt")); bz != nil {
			if t, err := sdk.ParseTimeBytes(bz); err == nil {
				n.lastTime = t
			}
		}
	}
	return n
}

func (n *L1) initChain(gen *L1Genesis) {
	state := gen.AppState
	if state == nil {
		state = map[string]json.RawMessage{}
		ag := authtypes.DefaultGenesisState()
		bg := banktypes.DefaultGenesisState()
		addrs := make([]string, 0, len(gen.Balances))
		for a := range gen.Balances {
			addrs = append(addrs, a)
		}
		sort.Strings(addrs)
		var accs []authtypes.GenesisAccount
		for i, a := range addrs {
			bg.Balances = append(bg.Balances, banktypes.Balance{Address: a, Coins: gen.Balances[a]})
			bg.Supply = bg.Supply.Add(gen.Balances[a]...)
			addr, _ := sdk.AccAddressFromBech32(a)
			accs = append(accs, authtypes.NewBaseAccount(addr, nil, uint64(i), 0))
		}
		packed, err := authtypes.PackAccounts(accs)
		if err != nil {
			panic(err)
		}
		ag.Accounts = packed
		state[authtypes.ModuleName] = n.Enc.Codec.MustMarshalJSON(ag)
		state[banktypes.ModuleName] = n.Enc.Codec.MustMarshalJSON(bg)
		og := gen.Ophost
		if og == nil {
			og = ophosttypes.DefaultGenesisState()
		}
		state[ophosttypes.ModuleName] = n.Enc.Codec.MustMarshalJSON(og)
	}
	bz, err := json.Marshal(state)
	if err != nil {
		panic(err)
	}
	ih := gen.InitialHeight
	if ih < 1 {
		ih = 1
	}
	n.initialHeight = ih
	cp := &cmtproto.ConsensusParams{
		Block:     &cmtproto.BlockParams{MaxBytes: 1 << 22, MaxGas: -1},
		Evidence:  &cmtproto.EvidenceParams{MaxAgeNumBlocks: 1000, MaxAgeDuration: time.Hour, MaxBytes: 1 << 20},
		Validator: &cmtproto.ValidatorParams{PubKeyTypes: []string{"ed25519"}},
	}
	if _, err := n.App.InitChain(&abci.RequestInitChain{ChainId: L1ChainID, Time: gen.Time, ConsensusParams: cp, AppStateBytes: bz, InitialHeight: ih}); err != nil {
		panic(fmt.Sprintf("L1 InitChain: %v", err))
	}
	if _, err := n.Finalize(gen.Time, nil, nil); err != nil {
		panic(err)
	}
	n.Commit()
}

func (n *L1) nextHeight() int64 {
	if n.App.LastBlockHeight() == 0 && n.initialHeight > 1 {
		return n.initialHeight
	}
	return n.App.LastBlockHeight() + 1
}

func (n *L1) Height() int64       { return n.App.LastBlockHeight() }
func (n *L1) LastTime() time.Time { return n.lastTime }

// Finalize executes the next block (height = last committed + 1) without committing.
func (n *L1) Finalize(t time.Time, txs [][]byte, stub []StubOp) (*abci.ResponseFinalizeBlock, error) {
	n.pendingStub = stub
	res, err := n.App.FinalizeBlock(&abci.RequestFinalizeBlock{Height: n.nextHeight(), Time: t, Txs: txs})
	n.pendingStub = nil
	if err == nil {
		n.lastTime = t
	}
	return res, err
}

// FinalizeAfterAbortedOE injects "the proposal was executed optimistically, then another
// proposal was decided": the block is executed once by the SDK's optimistic-execution
// machinery (ProcessProposal), that execution is aborted and discarded, and the block is
// executed again by FinalizeBlock -- all inside one process, so only state that is not
// part of the discarded cache (keeper memory) can leak from the first execution.
//
// alt, when non-nil, is the transaction list of the aborted proposal (a different
// proposal for the same height, as happens when a round fails); nil means the same list.
func (n *L1) FinalizeAfterAbortedOE(t time.Time, txs [][]byte, stub []StubOp, alt [][]byte) (*abci.ResponseFinalizeBlock, error) {
	n.pendingStub = stub
	h := n.nextHeight()
	start := atomic.LoadInt64(&n.blocksEnded)
	first := txs
	if alt != nil {
		first = alt
	}
	if _, err := n.App.ProcessProposal(&abci.RequestProcessProposal{Height: h, Time: t, Txs: first, Hash: []byte("proposal-A")}); err != nil {
		return nil, err
	}
	for i := 0; i < 50_000_000 && atomic.LoadInt64(&n.blocksEnded) == start; i++ {
		goruntime.Gosched()
	}
	res, err := n.App.FinalizeBlock(&abci.RequestFinalizeBlock{Height: h, Time: t, Txs: txs, Hash: []byte("proposal-B")})
	n.pendingStub = nil
	if err == nil {
		n.lastTime = t
	}
	return res, err
}

// SideSimulate / SideCheckTx are client traffic a real node serves between the
// consensus calls: a gas simulation (ante + messages) or a mempool check (ante only)
// on a branch of the node's check state that is thrown away.  The fault bookkeeping of
// the block in progress is left untouched.
func (n *L1) SideSimulate(tx []byte) {
	saved := *n.Fault
	defer func() { _ = recover(); *n.Fault = saved }()
	_, _, _ = n.App.Simulate(tx)
}

func (n *L1) SideCheckTx(tx []byte) {
	saved := *n.Fault
	defer func() { _ = recover(); *n.Fault = saved }()
	_, _ = n.App.CheckTx(&abci.RequestCheckTx{Tx: tx, Type: abci.CheckTxType_New})
}

func (n *L1) Commit() {
	if _, err := n.App.Commit(); err != nil {
		panic(err)
	}
}

// QueryCtx returns a read-only context at the latest committed height.
func (n *L1) QueryCtx() sdk.Context {
	ctx, err := n.App.CreateQueryContext(0, false)
	if err != nil {
		panic(err)
	}
	// after a restart BaseApp's check state has an empty header until the next
	// commit; a real node serves queries with the last block's time
	return ctx.WithBlockTime(n.lastTime)
}

func (n *L1) Querier() ophostkeeper.Querier { return ophostkeeper.NewQuerier(*n.OK) }

// StoreDigest hashes every key/value of the named committed store.
func StoreDigest(ctx sdk.Context, key storetypes.StoreKey) [32]byte {
	return storeDigest(ctx, key)
}

// ExportAppState exports the module genesis states (real ExportGenesis code).
func (n *L1) ExportAppState() map[string]json.RawMessage {
	ctx := n.QueryCtx()
	out := map[string]json.RawMessage{}
	for _, name := range []string{authtypes.ModuleName, banktypes.ModuleName, ophosttypes.ModuleName} {
		m := n.MM.Modules[name].(module.HasGenesis)
		out[name] = m.ExportGenesis(ctx, n.Enc.Codec)
	}
	// stub tables
	var kv [][2][]byte
	it := ctx.KVStore(n.Keys[StubStoreKey]).Iterator(nil, nil)
	for ; it.Valid(); it.Next() {
		kv = append(kv, [2][]byte{append([]byte{}, it.Key()...), append([]byte{}, it.Value()...)})
	}
	it.Close()
	bz, _ := json.Marshal(kv)
	out[StubStoreKey] = bz
	return out
}

// StubAdmin reads the perm stub's admin table entry.
func (n *L1) StubAdmin(ctx sdk.Context, port, ch string) sdk.AccAddress {
	return ctx.KVStore(n.Keys[StubStoreKey]).Get(admKey(port, ch))
}

// StubDump lists the whole stub table (sorted by key).
func (n *L1) StubDump(ctx sdk.Context) map[string]string {
	out := map[string]string{}
	it := ctx.KVStore(n.Keys[StubStoreKey]).Iterator(nil, nil)
	defer it.Close()
	for ; it.Valid(); it.Next() {
		out[string(it.Key())] = fmt.Sprintf("%x", it.Value())
	}
	return out
}
