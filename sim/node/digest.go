package node

import (
	"crypto/sha256"
	"encoding/binary"

	storetypes "cosmossdk.io/store/types"
	sdk "github.com/cosmos/cosmos-sdk/types"
)

func storeDigest(ctx sdk.Context, key storetypes.StoreKey) [32]byte {
	h := sha256.New()
	it := ctx.MultiStore().GetKVStore(key).Iterator(nil, nil)
	defer it.Close()
	var l [8]byte
	for ; it.Valid(); it.Next() {
		binary.BigEndian.PutUint64(l[:], uint64(len(it.Key())))
		h.Write(l[:])
		h.Write(it.Key())
		binary.BigEndian.PutUint64(l[:], uint64(len(it.Value())))
		h.Write(l[:])
		h.Write(it.Value())
	}
	var out [32]byte
	copy(out[:], h.Sum(nil))
	return out
}

// StoreDump returns all key/value pairs of a store (hex) in key order.
func StoreDump(ctx sdk.Context, key storetypes.StoreKey) [][2]string {
	var out [][2]string
	it := ctx.MultiStore().GetKVStore(key).Iterator(nil, nil)
	defer it.Close()
	for ; it.Valid(); it.Next() {
		out = append(out, [2]string{string(it.Key()), string(it.Value())})
	}
	return out
}
