// Package node wires the real OPinit modules into real BaseApp instances (one
// per simulated chain node) over an in-memory DB, and exposes exactly what a
// consensus engine and clients use: InitChain, CheckTx, FinalizeBlock, Commit,
// queries and genesis export.  Crash = drop the object, restart = rebuild it
// over the same DB.
package node

import (
	"crypto/sha256"
	"encoding/binary"
	"fmt"
	"strings"

	"cosmossdk.io/x/tx/signing"
	abci "github.com/cometbft/cometbft/abci/types"
	"github.com/cosmos/cosmos-sdk/client"
	"github.com/cosmos/cosmos-sdk/codec"
	codecaddress "github.com/cosmos/cosmos-sdk/codec/address"
	codectypes "github.com/cosmos/cosmos-sdk/codec/types"
	"github.com/cosmos/cosmos-sdk/std"
	sdk "github.com/cosmos/cosmos-sdk/types"
	"github.com/cosmos/cosmos-sdk/types/module"
	"github.com/cosmos/cosmos-sdk/x/auth"
	authtx "github.com/cosmos/cosmos-sdk/x/auth/tx"
	"github.com/cosmos/cosmos-sdk/x/authz"
	"github.com/cosmos/cosmos-sdk/x/bank"
	"github.com/cosmos/gogoproto/proto"

	"github.com/initia-labs/OPinit/x/opchild"
	"github.com/initia-labs/OPinit/x/ophost"
)

type Encoding struct {
	Registry codectypes.InterfaceRegistry
	Codec    codec.Codec
	TxConfig client.TxConfig
	Amino    *codec.LegacyAmino
}

func MakeEncoding() Encoding {
	reg, err := codectypes.NewInterfaceRegistryWithOptions(codectypes.InterfaceRegistryOptions{
		ProtoFiles: proto.HybridResolver,
		SigningOptions: signing.Options{
			AddressCodec:          codecaddress.NewBech32Codec(sdk.GetConfig().GetBech32AccountAddrPrefix()),
			ValidatorAddressCodec: codecaddress.NewBech32Codec(sdk.GetConfig().GetBech32ValidatorAddrPrefix()),
		},
	})
	if err != nil {
		panic(err)
	}
	cdc := codec.NewProtoCodec(reg)
	amino := codec.NewLegacyAmino()
	txc := authtx.NewTxConfig(cdc, authtx.DefaultSignModes)
	std.RegisterInterfaces(reg)
	std.RegisterLegacyAminoCodec(amino)
	basics := module.NewBasicManager(auth.AppModuleBasic{}, bank.AppModuleBasic{}, ophost.AppModuleBasic{}, opchild.AppModuleBasic{})
	basics.RegisterLegacyAminoCodec(amino)
	basics.RegisterInterfaces(reg)
	authz.RegisterInterfaces(reg)
	return Encoding{Registry: reg, Codec: cdc, TxConfig: txc, Amino: amino}
}

// Addr derives a deterministic 20-byte account address from a label.
func Addr(label string) sdk.AccAddress {
	h := sha256.Sum256([]byte("opsim/" + label))
	return sdk.AccAddress(h[:20])
}

func AddrN(kind string, i int) sdk.AccAddress { return Addr(fmt.Sprintf("%s/%d", kind, i)) }

// TxOpts are the envelope fields of a simulated transaction.
type TxOpts struct {
	Gas     uint64
	Fee     sdk.Coins
	Memo    string // carries harness fault directives, see FaultDirective
	Granter sdk.AccAddress
	Payer   sdk.AccAddress
}

// BuildTx encodes an (unsigned) transaction.  Outer-tx signature verification
// is a stub in the simulator: the authenticated signer is the message's
// declared signer field.
func BuildTx(enc Encoding, msgs []sdk.Msg, o TxOpts) ([]byte, error) {
	b := enc.TxConfig.NewTxBuilder()
	if err := b.SetMsgs(msgs...); err != nil {
		return nil, err
	}
	gas := o.Gas
	if gas == 0 {
		gas = 50_000_000
	}
	b.SetGasLimit(gas)
	b.SetFeeAmount(o.Fee)
	b.SetMemo(o.Memo)
	if o.Granter != nil {
		b.SetFeeGranter(o.Granter)
	}
	if o.Payer != nil {
		b.SetFeePayer(o.Payer)
	}
	return enc.TxConfig.TxEncoder()(b.GetTx())
}

// FaultDirective is parsed from a tx memo: "fault:<site>:<k>:<kind>" arms the
// k-th call (0-based) through the named keeper seam during this transaction to
// fail with an error ("err") or to panic ("panic").
type FaultDirective struct {
	Site string
	K    int
	Kind string
}

func ParseFaultMemo(memo string) (FaultDirective, bool) {
	if !strings.HasPrefix(memo, "fault:") {
		return FaultDirective{}, false
	}
	p := strings.Split(memo, ":")
	if len(p) != 4 {
		return FaultDirective{}, false
	}
	var k int
	if _, err := fmt.Sscanf(p[2], "%d", &k); err != nil {
		return FaultDirective{}, false
	}
	return FaultDirective{Site: p[1], K: k, Kind: p[3]}, true
}

// FaultState is shared by the fault-injecting keeper wrappers of one node.
type FaultState struct {
	Armed   bool
	Dir     FaultDirective
	Calls   map[string]int // per site, within the current tx
	Fired   int            // how many injected faults fired (cumulative)
	CallLog []string       // site:method per call within the current tx (recording mode)
	Record  bool
	TxFired []bool     // per BeginTx since the last ResetLog: did an injected fault fire in that tx
	TxCalls [][]string // per BeginTx: the call log of that tx (when Record)
}

func (f *FaultState) ResetLog() { f.TxFired = nil; f.TxCalls = nil }

func (f *FaultState) BeginTx(memo string) {
	f.Calls = map[string]int{}
	f.CallLog = nil
	f.Dir, f.Armed = ParseFaultMemo(memo)
	f.TxFired = append(f.TxFired, false)
	f.TxCalls = append(f.TxCalls, nil)
}

// Hit is called by a wrapper before forwarding a call.  It returns a non-nil
// error (or panics) when this call is the armed one.
func (f *FaultState) Hit(site, method string) error {
	if f.Calls == nil {
		f.Calls = map[string]int{}
	}
	k := f.Calls[site]
	f.Calls[site] = k + 1
	if f.Record {
		f.CallLog = append(f.CallLog, site+":"+method)
		if n := len(f.TxCalls); n > 0 {
			f.TxCalls[n-1] = f.CallLog
		}
	}
	if f.Armed && f.Dir.Site == site && f.Dir.K == k {
		f.Armed = false
		f.Fired++
		if n := len(f.TxFired); n > 0 {
			f.TxFired[n-1] = true
		}
		if f.Dir.Kind == "panic" {
			panic(fmt.Sprintf("injected panic at %s call %d (%s)", site, k, method))
		}
		return fmt.Errorf("injected error at %s call %d (%s)", site, k, method)
	}
	return nil
}

// EventAttrs flattens the events of one type into attribute maps.
func EventAttrs(evs []abci.Event, typ string) []map[string]string {
	var out []map[string]string
	for _, e := range evs {
		if e.Type != typ {
			continue
		}
		m := map[string]string{}
		for _, a := range e.Attributes {
			m[a.Key] = a.Value
		}
		out = append(out, m)
	}
	return out
}

func be64(x uint64) []byte {
	b := make([]byte, 8)
	binary.BigEndian.PutUint64(b, x)
	return b
}

// DecodeResponses unpacks the Msg responses carried in a tx result's Data.
func DecodeResponses(enc Encoding, data []byte) []proto.Message {
	if len(data) == 0 {
		return nil
	}
	var tmd sdk.TxMsgData
	if err := proto.Unmarshal(data, &tmd); err != nil {
		return nil
	}
	var out []proto.Message
	for _, a := range tmd.MsgResponses {
		m, err := enc.Registry.Resolve(a.TypeUrl)
		if err != nil {
			out = append(out, nil)
			continue
		}
		if err := proto.Unmarshal(a.Value, m); err != nil {
			out = append(out, nil)
			continue
		}
		out = append(out, m)
	}
	return out
}
