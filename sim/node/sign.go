package node

import (
	"context"
	"crypto/sha256"
	"strings"

	"github.com/cosmos/cosmos-sdk/client/tx"
	"github.com/cosmos/cosmos-sdk/crypto/keys/ed25519"
	"github.com/cosmos/cosmos-sdk/crypto/keys/secp256k1"
	cryptotypes "github.com/cosmos/cosmos-sdk/crypto/types"
	sdk "github.com/cosmos/cosmos-sdk/types"
	"github.com/cosmos/cosmos-sdk/types/tx/signing"
	authsigning "github.com/cosmos/cosmos-sdk/x/auth/signing"
)

// Key derives a deterministic secp256k1 account key from a label.
func Key(label string) cryptotypes.PrivKey {
	h := sha256.Sum256([]byte("opsim-key/" + label))
	return &secp256k1.PrivKey{Key: h[:]}
}

// KeyAddr is the account address of Key(label).
func KeyAddr(label string) sdk.AccAddress { return sdk.AccAddress(Key(label).PubKey().Address()) }

// ValKey derives a deterministic ed25519 consensus key from a label.
func ValKey(label string) cryptotypes.PrivKey {
	h := sha256.Sum256([]byte("opsim-valkey/" + label))
	if strings.HasPrefix(label, "secp") {
		// a consensus key of the other type CometBFT supports
		return &secp256k1.PrivKey{Key: h[:]}
	}
	return ed25519.GenPrivKeyFromSecret(h[:])
}

// SignedTx builds a really signed (SIGN_MODE_DIRECT) transaction, as the
// payload of a deposit hook must be.
func SignedTx(enc Encoding, chainID string, priv cryptotypes.PrivKey, accNum, seq uint64, msgs []sdk.Msg, gas uint64, corruptSig bool) ([]byte, error) {
	b := enc.TxConfig.NewTxBuilder()
	if err := b.SetMsgs(msgs...); err != nil {
		return nil, err
	}
	b.SetGasLimit(gas)
	mode := signing.SignMode_SIGN_MODE_DIRECT
	sig := signing.SignatureV2{PubKey: priv.PubKey(), Data: &signing.SingleSignatureData{SignMode: mode}, Sequence: seq}
	if err := b.SetSignatures(sig); err != nil {
		return nil, err
	}
	sd := authsigning.SignerData{Address: sdk.AccAddress(priv.PubKey().Address()).String(), ChainID: chainID, AccountNumber: accNum, Sequence: seq, PubKey: priv.PubKey()}
	s2, err := tx.SignWithPrivKey(context.Background(), mode, sd, b, priv, enc.TxConfig, seq)
	if err != nil {
		return nil, err
	}
	if corruptSig {
		d := s2.Data.(*signing.SingleSignatureData)
		d.Signature[3] ^= 0x40
	}
	if err := b.SetSignatures(s2); err != nil {
		return nil, err
	}
	return enc.TxConfig.TxEncoder()(b.GetTx())
}
