package node

import (
	dbm "github.com/cosmos/cosmos-db"
)

// snapshotDB wraps the in-memory database of a simulated node.  cosmos-db's MemDB
// iterator holds the database's read lock until it is closed; an iterator that is
// abandoned by a panic unwinding through code without a deferred Close (an out-of-gas
// panic at a store access inside an iteration over IAVL fast nodes) then blocks the next
// Commit of that node for ever.  On the disk databases a chain runs on, such an
// iterator leaks a handle and blocks nothing, so the deadlock is an artefact of MemDB,
// not behaviour of the code under test.  Iterators of this wrapper copy their range
// while they hold the lock and release it before they return: what a caller sees is
// the same snapshot a MemDB iterator shows (no write can happen while one is open).
type snapshotDB struct{ dbm.DB }

func wrapDB(db dbm.DB) dbm.DB {
	if _, ok := db.(snapshotDB); ok {
		return db
	}
	return snapshotDB{db}
}

func (s snapshotDB) Iterator(start, end []byte) (dbm.Iterator, error) {
	it, err := s.DB.Iterator(start, end)
	return drain(it, err, start, end)
}

func (s snapshotDB) ReverseIterator(start, end []byte) (dbm.Iterator, error) {
	it, err := s.DB.ReverseIterator(start, end)
	return drain(it, err, start, end)
}

func drain(it dbm.Iterator, err error, start, end []byte) (dbm.Iterator, error) {
	if err != nil {
		return nil, err
	}
	out := &sliceIter{start: start, end: end}
	for ; it.Valid(); it.Next() {
		out.keys = append(out.keys, append([]byte{}, it.Key()...))
		out.vals = append(out.vals, append([]byte{}, it.Value()...))
	}
	if err := it.Error(); err != nil {
		_ = it.Close()
		return nil, err
	}
	if err := it.Close(); err != nil {
		return nil, err
	}
	return out, nil
}

type sliceIter struct {
	start, end []byte
	keys, vals [][]byte
	i          int
}

func (s *sliceIter) Domain() (start, end []byte) { return s.start, s.end }
func (s *sliceIter) Valid() bool                 { return s.i < len(s.keys) }
func (s *sliceIter) Next() {
	if !s.Valid() {
		panic("sliceIter: Next on an invalid iterator")
	}
	s.i++
}
func (s *sliceIter) Key() []byte {
	if !s.Valid() {
		panic("sliceIter: Key on an invalid iterator")
	}
	return s.keys[s.i]
}
func (s *sliceIter) Value() []byte {
	if !s.Valid() {
		panic("sliceIter: Value on an invalid iterator")
	}
	return s.vals[s.i]
}
func (s *sliceIter) Error() error { return nil }
func (s *sliceIter) Close() error { s.i = len(s.keys); return nil }
