package node

import (
	goruntime "runtime"
	"sync/atomic"

	"context"
	"encoding/json"
	"fmt"
	"sort"
	"time"

	"cosmossdk.io/log"
	storetypes "cosmossdk.io/store/types"
	abci "github.com/cometbft/cometbft/abci/types"
	cmtcrypto "github.com/cometbft/cometbft/proto/tendermint/crypto"
	cmtproto "github.com/cometbft/cometbft/proto/tendermint/types"
	dbm "github.com/cosmos/cosmos-db"
	"github.com/cosmos/cosmos-sdk/baseapp"
	"github.com/cosmos/cosmos-sdk/runtime"
	sdk "github.com/cosmos/cosmos-sdk/types"
	"github.com/cosmos/cosmos-sdk/types/module"
	"github.com/cosmos/cosmos-sdk/x/auth"
	authante "github.com/cosmos/cosmos-sdk/x/auth/ante"
	authcodec "github.com/cosmos/cosmos-sdk/x/auth/codec"
	authkeeper "github.com/cosmos/cosmos-sdk/x/auth/keeper"
	authtypes "github.com/cosmos/cosmos-sdk/x/auth/types"
	"github.com/cosmos/cosmos-sdk/x/bank"
	bankkeeper "github.com/cosmos/cosmos-sdk/x/bank/keeper"
	banktypes "github.com/cosmos/cosmos-sdk/x/bank/types"
	connecttypes "github.com/skip-mev/connect/v2/pkg/types"
	oraclekeeper "github.com/skip-mev/connect/v2/x/oracle/keeper"
	oracletypes "github.com/skip-mev/connect/v2/x/oracle/types"

	"github.com/initia-labs/OPinit/x/opchild"
	opchildante "github.com/initia-labs/OPinit/x/opchild/ante"
	opchildkeeper "github.com/initia-labs/OPinit/x/opchild/keeper"
	opchildtypes "github.com/initia-labs/OPinit/x/opchild/types"
)

// L2Genesis is what a fresh L2 node is initialised from.
type L2Genesis struct {
	Time          time.Time
	Balances      map[string]sdk.Coins
	Opchild       *opchildtypes.GenesisState
	CurrencyPairs []string  // e.g. "BTC/USD"
	ExtraMetadata []string  // denoms that already have bank metadata at genesis (besides the native token)
	ModuleFunds   sdk.Coins // genesis balance of the opchild module account (an operator may pre-fund it)
	AppState      map[string]json.RawMessage
	InitialHeight int64
}

// HostSetUpdate is the block-level input standing for the IBC light-client
// update path that refreshes the L2's copy of the L1 validator set.
type HostSetUpdate struct {
	ClientID string
	Height   int64
	Set      *cmtproto.ValidatorSet
}

// PlanReg is an executor-change plan registered at application start-up (as an
// upgrade handler would); it lives in keeper memory and is re-registered by
// the harness after every restart.
type PlanReg struct {
	ProposalID, Height                           uint64
	NextValidator, Moniker, ConsPubKeyJSON, Info string
	NextExecutors                                []string
}

type L2Options struct {
	MinGasPrices string // node-local min gas prices (app.toml)
	SecpVals     bool   // the chain's consensus parameters also allow secp256k1 validator keys
}

type L2 struct {
	secpVals bool
	DB       dbm.DB
	Enc      Encoding
	App      *baseapp.BaseApp
	Keys     map[string]*storetypes.KVStoreKey
	AK       authkeeper.AccountKeeper
	BK       bankkeeper.BaseKeeper
	OK       *opchildkeeper.Keeper
	OrK      *oraclekeeper.Keeper
	Fault    *FaultState
	MM       *module.Manager
	BankMod  bank.AppModule

	Authority string

	pendingHost   []HostSetUpdate
	lastTime      time.Time
	initialHeight int64
	blocksEnded   int64 // atomic
	// InitValidators is the validator set InitChain returned (fresh nodes only)
	InitValidators []abci.ValidatorUpdate
	// PlanErrs holds the result of each start-up plan registration
	PlanErrs []error
	// EndBlock error of the last FinalizeBlock call, if any (block processing failure)
	LastEndBlockErr error
}

// ---- fault-injecting wrappers around the real keepers (opchild's BankKeeper / AccountKeeper seams) ----
type l2Bank struct {
	bankkeeper.BaseKeeper
	fs *FaultState
}

func (b l2Bank) MintCoins(ctx context.Context, mod string, amt sdk.Coins) error {
	if err := b.fs.Hit("bank", "MintCoins"); err != nil {
		return err
	}
	return b.BaseKeeper.MintCoins(ctx, mod, amt)
}
func (b l2Bank) BurnCoins(ctx context.Context, mod string, amt sdk.Coins) error {
	if err := b.fs.Hit("bank", "BurnCoins"); err != nil {
		return err
	}
	return b.BaseKeeper.BurnCoins(ctx, mod, amt)
}
func (b l2Bank) SendCoins(ctx context.Context, from, to sdk.AccAddress, amt sdk.Coins) error {
	if err := b.fs.Hit("bank", "SendCoins"); err != nil {
		return err
	}
	return b.BaseKeeper.SendCoins(ctx, from, to, amt)
}
func (b l2Bank) InputOutputCoins(ctx context.Context, in banktypes.Input, outs []banktypes.Output) error {
	if err := b.fs.Hit("bank", "InputOutputCoins"); err != nil {
		return err
	}
	return b.BaseKeeper.InputOutputCoins(ctx, in, outs)
}
func (b l2Bank) SendCoinsFromModuleToAccount(ctx context.Context, mod string, to sdk.AccAddress, amt sdk.Coins) error {
	if err := b.fs.Hit("bank", "SendCoinsFromModuleToAccount"); err != nil {
		return err
	}
	return b.BaseKeeper.SendCoinsFromModuleToAccount(ctx, mod, to, amt)
}
func (b l2Bank) SendCoinsFromAccountToModule(ctx context.Context, from sdk.AccAddress, mod string, amt sdk.Coins) error {
	if err := b.fs.Hit("bank", "SendCoinsFromAccountToModule"); err != nil {
		return err
	}
	return b.BaseKeeper.SendCoinsFromAccountToModule(ctx, from, mod, amt)
}

// faultyBankMsgServer is the hook-target message server: the real bank msg
// server behind a seam that can be armed to fail or panic (site "bank", so a
// hook message's transfer is one more numbered call of the deposit handler).
type faultyBankMsgServer struct {
	banktypes.MsgServer
	fs *FaultState
}

func (f faultyBankMsgServer) Send(ctx context.Context, req *banktypes.MsgSend) (*banktypes.MsgSendResponse, error) {
	if err := f.fs.Hit("bank", "MsgSend"); err != nil {
		return nil, err
	}
	return f.MsgServer.Send(ctx, req)
}

type l2Acct struct {
	authkeeper.AccountKeeper
	fs *FaultState
}

func (a l2Acct) HasAccount(ctx context.Context, addr sdk.AccAddress) bool {
	if err := a.fs.Hit("acct", "HasAccount"); err != nil {
		panic(err.Error())
	}
	return a.AccountKeeper.HasAccount(ctx, addr)
}
func (a l2Acct) NewAccountWithAddress(ctx context.Context, addr sdk.AccAddress) sdk.AccountI {
	if err := a.fs.Hit("acct", "NewAccountWithAddress"); err != nil {
		panic(err.Error())
	}
	return a.AccountKeeper.NewAccountWithAddress(ctx, addr)
}
func (a l2Acct) SetAccount(ctx context.Context, acc sdk.AccountI) {
	if err := a.fs.Hit("acct", "SetAccount"); err != nil {
		panic(err.Error())
	}
	a.AccountKeeper.SetAccount(ctx, acc)
}

// hostAnte stands for the IBC light-client update running inside a transaction (MsgUpdateClient and the
// middleware that feeds the new validator set to opchild): a tx whose memo is "hostset:<json>" refreshes the
// recorded L1 validator set while its ante handler runs, so the refresh shares the fate of that execution
// (committed with a block, or discarded with a simulation / a rejected CheckTx).
type hostAnte struct{ n *L2 }

type hostMemo struct {
	Client string   `json:"c"`
	Height int64    `json:"h"`
	Keys   [][]byte `json:"k"`
	Powers []int64  `json:"p"`
	NoKey  []bool   `json:"n,omitempty"`
}

// HostMemo encodes a validator-set refresh for a transaction memo.
func HostMemo(u HostSetUpdate) string {
	m := hostMemo{Client: u.ClientID, Height: u.Height}
	for _, v := range u.Set.Validators {
		m.Keys = append(m.Keys, v.PubKey.GetEd25519())
		m.Powers = append(m.Powers, v.VotingPower)
		m.NoKey = append(m.NoKey, v.PubKey.Sum == nil)
	}
	bz, _ := json.Marshal(m)
	return "hostset:" + string(bz)
}

func (h hostAnte) AnteHandle(ctx sdk.Context, tx sdk.Tx, simulate bool, next sdk.AnteHandler) (sdk.Context, error) {
	if mt, ok := tx.(sdk.TxWithMemo); ok && len(mt.GetMemo()) > 8 && mt.GetMemo()[:8] == "hostset:" {
		var m hostMemo
		if err := json.Unmarshal([]byte(mt.GetMemo()[8:]), &m); err != nil {
			return ctx, err
		}
		vs := &cmtproto.ValidatorSet{}
		for i := range m.Keys {
			pk := cmtcrypto.PublicKey{Sum: &cmtcrypto.PublicKey_Ed25519{Ed25519: m.Keys[i]}}
			if i < len(m.NoKey) && m.NoKey[i] {
				pk = cmtcrypto.PublicKey{} // a key type this chain cannot convert
			}
			vs.Validators = append(vs.Validators, &cmtproto.Validator{PubKey: pk, VotingPower: m.Powers[i]})
		}
		if err := h.n.OK.UpdateHostValidatorSet(ctx, m.Client, m.Height, vs); err != nil {
			return ctx, err
		}
	}
	return next(ctx, tx, simulate)
}

var l2MaccPerms = map[string][]string{
	authtypes.FeeCollectorName: nil,
	opchildtypes.ModuleName:    {authtypes.Burner, authtypes.Minter},
	authtypes.Minter:           {authtypes.Minter, authtypes.Burner},
	LazyModule:                 nil,
}

// LazyModule is a module whose account is not touched at genesis: its address is
// blocked for transfers but has no account in state until something creates one
// (the usual situation of a module account before its first use).
const LazyModule = "reserve"

func NewL2(db dbm.DB, gen *L2Genesis, opts L2Options, plans []PlanReg) *L2 {
	db = wrapDB(db) // see safedb.go
	enc := MakeEncoding()
	n := &L2{DB: db, Enc: enc, Fault: &FaultState{Record: true}, secpVals: opts.SecpVals}
	bopts := []func(*baseapp.BaseApp){baseapp.SetChainID(L2ChainID), baseapp.SetOptimisticExecution()}
	if opts.MinGasPrices != "" {
		bopts = append(bopts, baseapp.SetMinGasPrices(opts.MinGasPrices))
	}
	app := baseapp.NewBaseApp("sim-l2", log.NewNopLogger(), db, enc.TxConfig.TxDecoder(), bopts...)
	app.SetInterfaceRegistry(enc.Registry)
	n.App = app
	n.Keys = storetypes.NewKVStoreKeys(authtypes.StoreKey, banktypes.StoreKey, opchildtypes.StoreKey, oracletypes.StoreKey, ConsParamsStoreKey)
	app.MountKVStores(n.Keys)
	app.SetParamStore(consParamStore{n.Keys[ConsParamsStoreKey]})

	n.Authority = authtypes.NewModuleAddress(opchildtypes.ModuleName).String()
	ac := authcodec.NewBech32Codec(sdk.GetConfig().GetBech32AccountAddrPrefix())
	vc := authcodec.NewBech32Codec(sdk.GetConfig().GetBech32ValidatorAddrPrefix())
	cc := authcodec.NewBech32Codec(sdk.GetConfig().GetBech32ConsensusAddrPrefix())
	n.AK = authkeeper.NewAccountKeeper(enc.Codec, runtime.NewKVStoreService(n.Keys[authtypes.StoreKey]), authtypes.ProtoBaseAccount,
		l2MaccPerms, ac, sdk.GetConfig().GetBech32AccountAddrPrefix(), n.Authority)
	blocked := map[string]bool{}
	for acc := range l2MaccPerms {
		blocked[authtypes.NewModuleAddress(acc).String()] = true
	}
	n.BK = bankkeeper.NewBaseKeeper(enc.Codec, runtime.NewKVStoreService(n.Keys[banktypes.StoreKey]), n.AK, blocked, n.Authority, log.NewNopLogger())
	wb := l2Bank{n.BK, n.Fault}
	wa := l2Acct{n.AK, n.Fault}
	ork := oraclekeeper.NewKeeper(runtime.NewKVStoreService(n.Keys[oracletypes.StoreKey]), enc.Codec, nil, authtypes.NewModuleAddress(opchildtypes.ModuleName))
	n.OrK = &ork
	n.OK = opchildkeeper.NewKeeper(enc.Codec, runtime.NewKVStoreService(n.Keys[opchildtypes.StoreKey]), wa, wb, n.OrK,
		sdk.ChainAnteDecorators(
			authante.NewSetPubKeyDecorator(n.AK),
			authante.NewValidateSigCountDecorator(n.AK),
			authante.NewSigGasConsumeDecorator(n.AK, authante.DefaultSigVerificationGasConsumer),
			authante.NewSigVerificationDecorator(n.AK, enc.TxConfig.SignModeHandler()),
			authante.NewIncrementSequenceDecorator(n.AK),
		),
		enc.TxConfig.TxDecoder(), app.MsgServiceRouter(), n.Authority, ac, vc, cc, log.NewNopLogger())
	for _, p := range plans {
		// start-up registration; errors are reported to the caller through PlanErrs
		n.PlanErrs = append(n.PlanErrs, n.OK.RegisterExecutorChangePlan(p.ProposalID, p.Height, p.NextValidator, p.Moniker, p.ConsPubKeyJSON, p.Info, p.NextExecutors))
	}

	authMod := auth.NewAppModule(enc.Codec, n.AK, nil, nil)
	bankMod := bank.NewAppModule(enc.Codec, n.BK, n.AK, nil)
	childMod := opchild.NewAppModule(enc.Codec, n.OK)
	n.MM = module.NewManager(authMod, childMod)
	n.BankMod = bankMod
	cfg := module.NewConfigurator(enc.Codec, app.MsgServiceRouter(), app.GRPCQueryRouter())
	if err := n.MM.RegisterServices(cfg); err != nil {
		panic(err)
	}
	// the hook-target bank msg server runs through the fault-injecting wrapper
	banktypes.RegisterMsgServer(cfg.MsgServer(), faultyBankMsgServer{bankkeeper.NewMsgServerImpl(n.BK), n.Fault})
	banktypes.RegisterQueryServer(cfg.QueryServer(), n.BK)

	app.SetInitChainer(func(ctx sdk.Context, req *abci.RequestInitChain) (*abci.ResponseInitChain, error) {
		var state map[string]json.RawMessage
		if err := json.Unmarshal(req.AppStateBytes, &state); err != nil {
			return nil, err
		}
		authMod.InitGenesis(ctx, enc.Codec, state[authtypes.ModuleName])
		bankMod.InitGenesis(ctx, enc.Codec, state[banktypes.ModuleName])
		var og oracletypes.GenesisState
		enc.Codec.MustUnmarshalJSON(state[oracletypes.ModuleName], &og)
		n.OrK.InitGenesis(ctx, og)
		// module accounts exist from genesis (as they do on a chain whose modules
		// touch them in InitGenesis); see DESIGN "observations outside the listed properties"
		for _, name := range []string{authtypes.FeeCollectorName, opchildtypes.ModuleName, authtypes.Minter} {
			n.AK.GetModuleAccount(ctx, name)
		}
		updates := childMod.InitGenesis(ctx, enc.Codec, state[opchildtypes.ModuleName])
		return &abci.ResponseInitChain{Validators: updates}, nil
	})
	app.SetPreBlocker(func(ctx sdk.Context, req *abci.RequestFinalizeBlock) (*sdk.ResponsePreBlock, error) {
		ctx.KVStore(n.Keys[ConsParamsStoreKey]).Set([]byte("lt"), sdk.FormatTimeBytes(ctx.BlockTime()))
		for _, u := range n.pendingHost {
			if err := n.OK.UpdateHostValidatorSet(ctx, u.ClientID, u.Height, u.Set); err != nil {
				return nil, err
			}
		}
		return &sdk.ResponsePreBlock{}, nil
	})
	app.SetBeginBlocker(func(ctx sdk.Context) (sdk.BeginBlock, error) {
		return sdk.BeginBlock{}, opchild.BeginBlocker(ctx, n.OK)
	})
	app.SetEndBlocker(func(ctx sdk.Context) (sdk.EndBlock, error) {
		ups, err := opchild.EndBlocker(ctx, n.OK)
		n.LastEndBlockErr = err
		atomic.AddInt64(&n.blocksEnded, 1)
		return sdk.EndBlock{ValidatorUpdates: ups}, err
	})
	app.SetAnteHandler(sdk.ChainAnteDecorators(
		authante.NewSetUpContextDecorator(),
		faultAnte{n.Fault},
		hostAnte{n},
		authante.NewDeductFeeDecorator(n.AK, n.BK, nil, opchildante.NewMempoolFeeChecker(n.OK).CheckTxFeeWithMinGasPrices),
		opchildante.NewRedundantBridgeDecorator(n.OK),
	))

	if err := app.LoadLatestVersion(); err != nil {
		panic(err)
	}
	if app.LastBlockHeight() == 0 {
		if gen == nil {
			panic("fresh L2 node needs a genesis")
		}
		n.initChain(gen)
	} else if bz := app.CommitMultiStore().GetKVStore(n.Keys[ConsParamsStoreKey]).Get([]byte("lt")); bz != nil {
		if t, err := sdk.ParseTimeBytes(bz); err == nil {
			n.lastTime = t
		}
	}
	return n
}

func (n *L2) initChain(gen *L2Genesis) {
	state := gen.AppState
	if state == nil {
		state = map[string]json.RawMessage{}
		ag := authtypes.DefaultGenesisState()
		bg := banktypes.DefaultGenesisState()
		addrs := make([]string, 0, len(gen.Balances))
		for a := range gen.Balances {
			addrs = append(addrs, a)
		}
		sort.Strings(addrs)
		var accs []authtypes.GenesisAccount
		for i, a := range addrs {
			if !gen.Balances[a].IsZero() {
				bg.Balances = append(bg.Balances, banktypes.Balance{Address: a, Coins: gen.Balances[a]})
				bg.Supply = bg.Supply.Add(gen.Balances[a]...)
			}
			addr, _ := sdk.AccAddressFromBech32(a)
			accs = append(accs, authtypes.NewBaseAccount(addr, nil, uint64(i), 0))
		}
		// the native gas token has bank metadata, as on any real chain
		bg.DenomMetadata = append(bg.DenomMetadata, banktypes.Metadata{Base: "umin", Display: "min", Symbol: "MIN", Name: "min token",
			DenomUnits: []*banktypes.DenomUnit{{Denom: "umin", Exponent: 0}, {Denom: "min", Exponent: 6}}})
		if !gen.ModuleFunds.IsZero() {
			bg.Balances = append(bg.Balances, banktypes.Balance{Address: authtypes.NewModuleAddress(opchildtypes.ModuleName).String(), Coins: gen.ModuleFunds})
			bg.Supply = bg.Supply.Add(gen.ModuleFunds...)
		}
		for _, d := range gen.ExtraMetadata {
			bg.DenomMetadata = append(bg.DenomMetadata, banktypes.Metadata{Base: d, Display: d, Symbol: d, Name: d, DenomUnits: []*banktypes.DenomUnit{{Denom: d, Exponent: 0}}})
		}
		packed, err := authtypes.PackAccounts(accs)
		if err != nil {
			panic(err)
		}
		ag.Accounts = packed
		state[authtypes.ModuleName] = n.Enc.Codec.MustMarshalJSON(ag)
		state[banktypes.ModuleName] = n.Enc.Codec.MustMarshalJSON(bg)
		og := oracletypes.GenesisState{}
		for i, s := range gen.CurrencyPairs {
			cp, err := connecttypes.CurrencyPairFromString(s)
			if err != nil {
				panic(err)
			}
			og.CurrencyPairGenesis = append(og.CurrencyPairGenesis, oracletypes.CurrencyPairGenesis{CurrencyPair: cp, Id: uint64(i)})
		}
		og.NextId = uint64(len(gen.CurrencyPairs))
		state[oracletypes.ModuleName] = n.Enc.Codec.MustMarshalJSON(&og)
		cg := gen.Opchild
		if cg == nil {
			cg = opchildtypes.DefaultGenesisState()
		}
		state[opchildtypes.ModuleName] = n.Enc.Codec.MustMarshalJSON(cg)
	}
	bz, err := json.Marshal(state)
	if err != nil {
		panic(err)
	}
	ih := gen.InitialHeight
	if ih < 1 {
		ih = 1
	}
	n.initialHeight = ih
	cp := &cmtproto.ConsensusParams{
		Block:     &cmtproto.BlockParams{MaxBytes: 1 << 22, MaxGas: -1},
		Evidence:  &cmtproto.EvidenceParams{MaxAgeNumBlocks: 1000, MaxAgeDuration: time.Hour, MaxBytes: 1 << 20},
		Validator: &cmtproto.ValidatorParams{PubKeyTypes: []string{"ed25519"}},
	}
	if n.secpVals {
		cp.Validator.PubKeyTypes = append(cp.Validator.PubKeyTypes, "secp256k1")
	}
	res, err := n.App.InitChain(&abci.RequestInitChain{ChainId: L2ChainID, Time: gen.Time, ConsensusParams: cp, AppStateBytes: bz, InitialHeight: ih})
	if err != nil {
		panic(fmt.Sprintf("L2 InitChain: %v", err))
	}
	n.InitValidators = res.Validators
	if _, err := n.Finalize(gen.Time, nil, nil); err != nil {
		panic(err)
	}
	n.Commit()
}

func (n *L2) nextHeight() int64 {
	if n.App.LastBlockHeight() == 0 && n.initialHeight > 1 {
		return n.initialHeight
	}
	return n.App.LastBlockHeight() + 1
}

func (n *L2) Height() int64       { return n.App.LastBlockHeight() }
func (n *L2) LastTime() time.Time { return n.lastTime }

func (n *L2) Finalize(t time.Time, txs [][]byte, host []HostSetUpdate) (*abci.ResponseFinalizeBlock, error) {
	n.pendingHost = host
	n.LastEndBlockErr = nil
	res, err := n.App.FinalizeBlock(&abci.RequestFinalizeBlock{Height: n.nextHeight(), Time: t, Txs: txs})
	n.pendingHost = nil
	if err == nil {
		n.lastTime = t
	}
	return res, err
}

// FinalizeAfterAbortedOE: see the L1 counterpart.
func (n *L2) FinalizeAfterAbortedOE(t time.Time, txs [][]byte, host []HostSetUpdate, alt [][]byte) (*abci.ResponseFinalizeBlock, error) {
	n.pendingHost = host
	n.LastEndBlockErr = nil
	h := n.nextHeight()
	start := atomic.LoadInt64(&n.blocksEnded)
	first := txs
	if alt != nil {
		first = alt
	}
	if _, err := n.App.ProcessProposal(&abci.RequestProcessProposal{Height: h, Time: t, Txs: first, Hash: []byte("proposal-A")}); err != nil {
		return nil, err
	}
	for i := 0; i < 50_000_000 && atomic.LoadInt64(&n.blocksEnded) == start; i++ {
		goruntime.Gosched()
	}
	res, err := n.App.FinalizeBlock(&abci.RequestFinalizeBlock{Height: h, Time: t, Txs: txs, Hash: []byte("proposal-B")})
	n.pendingHost = nil
	if err == nil {
		n.lastTime = t
	}
	return res, err
}

// SideSimulate / SideCheckTx: see the L1 counterpart.
func (n *L2) SideSimulate(tx []byte) {
	saved := *n.Fault
	defer func() { _ = recover(); *n.Fault = saved }()
	_, _, _ = n.App.Simulate(tx)
}

func (n *L2) SideCheckTx(tx []byte) {
	saved := *n.Fault
	defer func() { _ = recover(); *n.Fault = saved }()
	_, _ = n.App.CheckTx(&abci.RequestCheckTx{Tx: tx, Type: abci.CheckTxType_New})
}

func (n *L2) Commit() {
	if _, err := n.App.Commit(); err != nil {
		panic(err)
	}
}

func (n *L2) QueryCtx() sdk.Context {
	ctx, err := n.App.CreateQueryContext(0, false)
	if err != nil {
		panic(err)
	}
	return ctx.WithBlockTime(n.lastTime)
}

func (n *L2) Querier() opchildtypes.QueryServer { return opchildkeeper.NewQuerier(n.OK) }

func (n *L2) ExportAppState() map[string]json.RawMessage {
	ctx := n.QueryCtx()
	out := map[string]json.RawMessage{}
	out[authtypes.ModuleName] = n.MM.Modules[authtypes.ModuleName].(module.HasGenesis).ExportGenesis(ctx, n.Enc.Codec)
	out[banktypes.ModuleName] = n.BankMod.ExportGenesis(ctx, n.Enc.Codec)
	out[opchildtypes.ModuleName] = n.MM.Modules[opchildtypes.ModuleName].(module.HasABCIGenesis).ExportGenesis(ctx, n.Enc.Codec)
	out[oracletypes.ModuleName] = n.Enc.Codec.MustMarshalJSON(n.OrK.ExportGenesis(ctx))
	return out
}
