// Package engine is the consensus-engine stub: it holds the validator set the
// way CometBFT does and applies the update batches the application returns
// with the real cometbft/types.ValidatorSet.UpdateWithChangeSet plus the
// per-update rules of cometbft/state.validateValidatorUpdates.
package engine

import (
	"encoding/hex"
	"fmt"

	abci "github.com/cometbft/cometbft/abci/types"
	cmttypes "github.com/cometbft/cometbft/types"
)

type Engine struct {
	Set         *cmttypes.ValidatorSet
	PubKeyTypes []string
}

func New(pubKeyTypes []string) *Engine { return &Engine{PubKeyTypes: pubKeyTypes} }

// InitChain installs the genesis validator set returned by the application.
func (e *Engine) InitChain(updates []abci.ValidatorUpdate) error {
	vals, err := cmttypes.PB2TM.ValidatorUpdates(updates)
	if err != nil {
		return err
	}
	if len(vals) == 0 {
		return fmt.Errorf("validator set is nil in genesis and still empty after InitChain")
	}
	seen := map[string]bool{}
	for _, v := range vals {
		k := hex.EncodeToString(v.PubKey.Bytes())
		if seen[k] {
			return fmt.Errorf("duplicate key %s in genesis validator set", k)
		}
		seen[k] = true
		if v.VotingPower <= 0 {
			return fmt.Errorf("genesis validator with non-positive power")
		}
	}
	e.Set = cmttypes.NewValidatorSet(vals)
	return nil
}

// Apply validates and applies one end-block batch exactly as CometBFT would.
func (e *Engine) Apply(updates []abci.ValidatorUpdate) error {
	for _, u := range updates {
		if u.GetPower() < 0 {
			return fmt.Errorf("voting power can't be negative %v", u)
		}
		if u.GetPower() == 0 {
			continue
		}
		pk, err := cmttypes.PB2TM.ValidatorUpdates([]abci.ValidatorUpdate{u})
		if err != nil {
			return err
		}
		ok := false
		for _, t := range e.PubKeyTypes {
			if pk[0].PubKey.Type() == t {
				ok = true
			}
		}
		if !ok {
			return fmt.Errorf("validator %v is using pubkey %s, which is unsupported for consensus", u, pk[0].PubKey.Type())
		}
	}
	if len(updates) == 0 {
		return nil
	}
	vals, err := cmttypes.PB2TM.ValidatorUpdates(updates)
	if err != nil {
		return err
	}
	if e.Set == nil {
		return fmt.Errorf("no validator set")
	}
	cp := e.Set.Copy()
	if err := cp.UpdateWithChangeSet(vals); err != nil {
		return err
	}
	e.Set = cp
	return nil
}

// Powers returns pubkey-hex -> power of the current engine set.
func (e *Engine) Powers() map[string]int64 {
	out := map[string]int64{}
	if e.Set == nil {
		return out
	}
	for _, v := range e.Set.Validators {
		out[hex.EncodeToString(v.PubKey.Bytes())] = v.VotingPower
	}
	return out
}
