package prover

import (
	"crypto/sha256"
	"encoding/hex"
	"encoding/json"
	"fmt"
	"os"
	"strconv"
)

// Escrow is the ADR-028 module-derived address of a bridge:
// sha256(sha256("module") ‖ "ophost" ‖ 0x00 ‖ be64(id)).
func Escrow(bridgeID uint64) []byte {
	t := sha256.Sum256([]byte("module"))
	buf := append([]byte{}, t[:]...)
	buf = append(buf, []byte("ophost")...)
	buf = append(buf, 0)
	buf = append(buf, be64(bridgeID)...)
	h := sha256.Sum256(buf)
	return h[:]
}

type vecFile struct {
	Leaf       []struct{ Bridge, Seq, Sender, Receiver, Denom, Amount, Hash string } `json:"leaf"`
	Node       []struct{ A, B, Hash string }                                         `json:"node"`
	OutputRoot []struct {
		Version     int    `json:"version"`
		StorageRoot string `json:"storage_root"`
		BlockHash   string `json:"block_hash"`
		Hash        string `json:"hash"`
	} `json:"output_root"`
	L2Denom []struct{ Bridge, Denom, L2denom string } `json:"l2denom"`
	Escrow  []struct{ Bridge, Addr string }           `json:"escrow"`
}

func h32(s string) Hash {
	b, err := hex.DecodeString(s)
	if err != nil || len(b) != 32 {
		panic("bad vector " + s)
	}
	var h Hash
	copy(h[:], b)
	return h
}

func u(s string) uint64 {
	v, err := strconv.ParseUint(s, 10, 64)
	if err != nil {
		panic(err)
	}
	return v
}

// SelfTest pins the prover against the python-generated vectors.
func SelfTest(path string) error {
	bz, err := os.ReadFile(path)
	if err != nil {
		return err
	}
	var v vecFile
	if err := json.Unmarshal(bz, &v); err != nil {
		return err
	}
	if len(v.Leaf) == 0 || len(v.Node) == 0 || len(v.OutputRoot) == 0 || len(v.L2Denom) == 0 || len(v.Escrow) == 0 {
		return fmt.Errorf("vector file incomplete")
	}
	for i, x := range v.Leaf {
		if Leaf(u(x.Bridge), u(x.Seq), x.Sender, x.Receiver, x.Denom, u(x.Amount)) != h32(x.Hash) {
			return fmt.Errorf("leaf vector %d mismatch", i)
		}
	}
	for i, x := range v.Node {
		if Node(h32(x.A), h32(x.B)) != h32(x.Hash) || Node(h32(x.B), h32(x.A)) != h32(x.Hash) {
			return fmt.Errorf("node vector %d mismatch", i)
		}
	}
	for i, x := range v.OutputRoot {
		if OutputRoot(byte(x.Version), h32(x.StorageRoot), h32(x.BlockHash)) != h32(x.Hash) {
			return fmt.Errorf("output root vector %d mismatch", i)
		}
	}
	for i, x := range v.L2Denom {
		if L2Denom(u(x.Bridge), x.Denom) != x.L2denom {
			return fmt.Errorf("l2denom vector %d mismatch", i)
		}
	}
	for i, x := range v.Escrow {
		if hex.EncodeToString(Escrow(u(x.Bridge))) != x.Addr {
			return fmt.Errorf("escrow vector %d mismatch", i)
		}
	}
	// tree self-consistency for both odd-node rules
	for _, dup := range []bool{false, true} {
		for n := 1; n <= 19; n++ {
			var leaves []Hash
			for i := 0; i < n; i++ {
				leaves = append(leaves, Leaf(1, uint64(i+1), "a", "b", "c", uint64(i)))
			}
			t := Build(leaves, dup)
			for i := 0; i < n; i++ {
				if Climb(leaves[i], t.Proof(i)) != t.Root() {
					return fmt.Errorf("tree n=%d dup=%v leaf %d does not climb to root", n, dup, i)
				}
			}
		}
	}
	return nil
}
