// Package prover is the simulated off-chain executor's commitment code: an
// implementation of the documented hash formats that does not import or call
// any OPinit function, pinned against vectors produced by a third
// implementation (python hashlib) under /verif/vectors.
package prover

import (
	"bytes"
	"encoding/binary"
	"encoding/hex"

	"golang.org/x/crypto/sha3"
)

type Hash = [32]byte

func be64(x uint64) []byte {
	var b [8]byte
	binary.BigEndian.PutUint64(b[:], x)
	return b[:]
}

// Leaf: sha3(sha3( be64(bridge) ‖ be64(seq) ‖ sha3(sender) ‖ sha3(receiver) ‖ sha3(denom) ‖ be64(amount) )).
func Leaf(bridgeID, seq uint64, sender, receiver, denom string, amount uint64) Hash {
	pre := make([]byte, 0, 120)
	pre = append(pre, be64(bridgeID)...)
	pre = append(pre, be64(seq)...)
	s := sha3.Sum256([]byte(sender))
	pre = append(pre, s[:]...)
	r := sha3.Sum256([]byte(receiver))
	pre = append(pre, r[:]...)
	d := sha3.Sum256([]byte(denom))
	pre = append(pre, d[:]...)
	pre = append(pre, be64(amount)...)
	h := sha3.Sum256(pre)
	return sha3.Sum256(h[:])
}

// Node: sha3 over the lexicographically ordered pair.
func Node(a, b Hash) Hash {
	buf := make([]byte, 64)
	if bytes.Compare(a[:], b[:]) < 0 {
		copy(buf, a[:])
		copy(buf[32:], b[:])
	} else {
		copy(buf, b[:])
		copy(buf[32:], a[:])
	}
	return sha3.Sum256(buf)
}

// OutputRoot: sha3(version ‖ storage_root ‖ last_block_hash).
func OutputRoot(version byte, storageRoot, lastBlockHash Hash) Hash {
	buf := make([]byte, 65)
	buf[0] = version
	copy(buf[1:], storageRoot[:])
	copy(buf[33:], lastBlockHash[:])
	return sha3.Sum256(buf)
}

// L2Denom: "l2/" + hex(sha3(be64(bridge) ‖ l1denom)).
func L2Denom(bridgeID uint64, l1Denom string) string {
	buf := append(be64(bridgeID), []byte(l1Denom)...)
	h := sha3.Sum256(buf)
	return "l2/" + hex.EncodeToString(h[:])
}

// Climb recomputes the root from a leaf and its proof.
func Climb(leaf Hash, proof []Hash) Hash {
	cur := leaf
	for _, p := range proof {
		cur = Node(cur, p)
	}
	return cur
}

// Tree is a sorted-pair Merkle tree built level by level.  An unpaired last
// node of a level is either paired with itself (Dup) or promoted unchanged.
type Tree struct {
	Levels [][]Hash
	Dup    bool
}

func Build(leaves []Hash, dup bool) *Tree {
	t := &Tree{Dup: dup}
	if len(leaves) == 0 {
		return t
	}
	lvl := append([]Hash{}, leaves...)
	t.Levels = append(t.Levels, lvl)
	for len(lvl) > 1 {
		var nxt []Hash
		for i := 0; i < len(lvl); i += 2 {
			if i+1 < len(lvl) {
				nxt = append(nxt, Node(lvl[i], lvl[i+1]))
			} else if dup {
				nxt = append(nxt, Node(lvl[i], lvl[i]))
			} else {
				nxt = append(nxt, lvl[i])
			}
		}
		t.Levels = append(t.Levels, nxt)
		lvl = nxt
	}
	return t
}

// Lift puts the tree below a path of further siblings: the withdrawals become one small corner of a much
// larger tree whose other subtrees are only known by their hashes (what a claimant of a busy rollup sees).
func (t *Tree) Lift(sibs []Hash) {
	if len(t.Levels) == 0 {
		return
	}
	for _, s := range sibs {
		top := len(t.Levels) - 1
		root := t.Levels[top][0]
		t.Levels[top] = []Hash{root, s}
		t.Levels = append(t.Levels, []Hash{Node(root, s)})
	}
}

func (t *Tree) Root() Hash {
	if len(t.Levels) == 0 {
		return Hash{}
	}
	return t.Levels[len(t.Levels)-1][0]
}

// Proof returns the sibling path for leaf i.
func (t *Tree) Proof(i int) []Hash {
	var out []Hash
	for l := 0; l+1 < len(t.Levels); l++ {
		lvl := t.Levels[l]
		sib := i ^ 1
		if sib < len(lvl) {
			out = append(out, lvl[sib])
		} else if t.Dup {
			out = append(out, lvl[i])
		}
		i /= 2
	}
	return out
}
