package main

import (
	"fmt"
	"os"
	"path/filepath"
	"strconv"

	"opsim/core"
	"opsim/prover"
	_ "opsim/scen"
)

func usage() {
	fmt.Fprintln(os.Stderr, "usage: opsim check <prop> quick|thorough | replay <file> | digest <prop> <n> | selftest | list")
	os.Exit(2)
}

func main() {
	if len(os.Args) < 2 {
		usage()
	}
	if err := prover.SelfTest(filepath.Join(core.VerifDir(), "vectors", "vectors.json")); err != nil {
		fmt.Fprintf(os.Stderr, "prover self-test against pinned vectors failed (exit 2): %v\n", err)
		os.Exit(2)
	}
	switch os.Args[1] {
	case "list":
		for _, id := range core.AllIDs() {
			fmt.Println(id)
		}
	case "check":
		if len(os.Args) != 4 {
			usage()
		}
		os.Exit(core.CheckMain(os.Args[2], os.Args[3]))
	case "replay":
		if len(os.Args) != 3 {
			usage()
		}
		core.Known = core.LoadKnown(filepath.Join(core.VerifDir(), "known_findings.json"))
		rf, err := core.ReadReplay(os.Args[2])
		if err != nil {
			fmt.Fprintln(os.Stderr, err)
			os.Exit(2)
		}
		v, r, err := core.DoReplay(rf)
		if err != nil {
			fmt.Fprintln(os.Stderr, err)
			os.Exit(2)
		}
		if rf.Property == "C18" {
			// run-to-run divergence caused by Go map iteration order cannot be seeded: re-run the
			// recorded history and report the divergence rate (everything else replays exactly)
			hits := 0
			const K = 20
			for i := 0; i < K; i++ {
				vi, ri, _ := core.DoReplay(rf)
				if vi != nil {
					hits++
					v, r = vi, ri
				}
			}
			fmt.Printf("C18 replay: the recorded history diverged in %d of %d executions\n", hits, K)
		}
		if os.Getenv("OPSIM_CHILD") == "" {
			for _, l := range r.Log {
				fmt.Println("  ", l)
			}
		}
		if v == nil {
			fmt.Println("replay: no violation")
			os.Exit(0)
		}
		fmt.Printf("replay: %s \n", v.String())
		fmt.Printf("VIOLATION property=%s replay=%s\n", v.Prop, os.Args[2])
		os.Exit(1)
	case "one":
		// opsim one <prop> <tier> <run-seed>
		if len(os.Args) != 5 {
			usage()
		}
		seed, err := strconv.ParseUint(os.Args[4], 10, 64)
		if err != nil {
			usage()
		}
		os.Exit(core.OneMain(os.Args[2], os.Args[3], seed))
	case "digest":
		// determinism witness: prints one line per run
		if len(os.Args) != 4 {
			usage()
		}
		core.Known = core.LoadKnown(filepath.Join(core.VerifDir(), "known_findings.json"))
		n, _ := strconv.Atoi(os.Args[3])
		os.Exit(core.DigestMain(os.Args[2], n))
	default:
		usage()
	}
}
