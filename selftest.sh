#!/bin/bash
# Determinism self-test: for each property, the per-run witness lines (seed,
# number of choices, log digest, verdict) must be byte-identical across OS
# processes and across GOMAXPROCS values.  exit 0 ok, 2 on any divergence.
# usage: ./selftest.sh [runs-per-property] [processes-per-setting]
cd "$(dirname "$0")" || exit 2
export VERIF_DIR="$(pwd)"
N=${1:-12}; P=${2:-2}
tmp=$(mktemp -d /tmp/opsim-selftest.XXXXXX)
trap 'rm -rf "$tmp"' EXIT
props=$(./bin/opsim list)
fail=0
for prop in $props; do
  i=0
  for gmp in 1 4 16; do
    for k in $(seq 1 $P); do
      i=$((i+1))
      GOMAXPROCS=$gmp VERIF_SEED=${VERIF_SEED:-77} ./bin/opsim digest $prop $N > $tmp/$prop.$i.out 2>$tmp/$prop.$i.err &
    done
  done
  wait
  for f in $tmp/$prop.*.out; do
    if ! cmp -s $tmp/$prop.1.out $f; then echo "NONDETERMINISM in $prop: $f differs" >&2; diff $tmp/$prop.1.out $f | head -5 >&2; fail=1; fi
  done
  if grep -q HARNESS-PANIC $tmp/$prop.1.out; then echo "harness panic in $prop:" >&2; grep HARNESS-PANIC $tmp/$prop.1.out | head -3 >&2; fail=1; fi
  [ -s $tmp/$prop.1.out ] || { echo "no output for $prop" >&2; cat $tmp/$prop.1.err >&2; fail=1; }
done
[ $fail -eq 0 ] && echo "selftest ok: $(echo $props | wc -w) properties x $N runs x $((3*P)) processes (GOMAXPROCS 1/4/16) identical" && exit 0
exit 2
